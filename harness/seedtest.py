"""Evaluate a seeded change (written by an independent sub-agent in a scratch worktree) against the checks.

  python -m harness.seedtest <worktree> <seed-id> <property> [--checks C01,C02] [--tier quick] [--skip-suite]

1. confirms in the worktree: demo fails with the change, passes without it, the existing suite passes with it;
2. applies patch.diff to /repo, runs the listed checks, ALWAYS restores /repo (git checkout -- .);
3. stores seeded/<seed-id>/{patch.diff, demo.py, notes.md, meta.json}.
"""
import argparse
import json
import os
import shutil
import subprocess
import sys
import time

VERIF = os.path.dirname(os.path.dirname(os.path.abspath(__file__)))
PY = '/venv/bin/python'


def sh(cmd, cwd=None, timeout=3600, env=None):
    e = dict(os.environ)
    if env:
        e.update(env)
    p = subprocess.run(cmd, shell=True, cwd=cwd, stdout=subprocess.PIPE, stderr=subprocess.STDOUT, text=True, timeout=timeout, env=e)
    return p.returncode, p.stdout


def main():
    ap = argparse.ArgumentParser()
    ap.add_argument('wt')
    ap.add_argument('seed_id')
    ap.add_argument('prop')
    ap.add_argument('--checks', default=None)
    ap.add_argument('--tier', default='quick')
    ap.add_argument('--skip-suite', action='store_true')
    ap.add_argument('--skip-demo', action='store_true')
    ap.add_argument('--scratch', action='store_true', help='apply the patch in a scratch worktree and point the checks at it (BUBUS_REPO); /repo is not touched')
    a = ap.parse_args()
    wt = a.wt
    seed = os.path.join(wt, '_seed')
    meta = {'seed_id': a.seed_id, 'property': a.prop, 'ran': [], 'at': time.strftime('%Y-%m-%d %H:%M:%S')}
    dest = os.path.join(VERIF, 'seeded', a.seed_id)
    if os.path.isdir(seed):
        rc, diff = sh('git -C %s diff -- bubus' % wt)
        if diff.strip():
            open(os.path.join(seed, 'patch.diff'), 'w').write(diff)
        os.makedirs(dest, exist_ok=True)
        for f in ('patch.diff', 'demo.py', 'notes.md'):
            if os.path.exists(os.path.join(seed, f)):
                shutil.copy(os.path.join(seed, f), os.path.join(dest, f))
        env = {'PYTHONPATH': wt}
        if not a.skip_demo:
            rc1, out1 = sh('%s _seed/demo.py' % PY, cwd=wt, timeout=120, env=env)
            # NOT git stash: the stash is shared by all worktrees of a repository
            sh('git -C %s apply -R _seed/patch.diff' % wt)
            try:
                rc0, out0 = sh('%s _seed/demo.py' % PY, cwd=wt, timeout=120, env=env)
            finally:
                sh('git -C %s apply _seed/patch.diff' % wt)
            meta['demo_with_change_rc'] = rc1
            meta['demo_without_change_rc'] = rc0
            meta['demo_with_change_tail'] = out1[-600:]
            meta['ran'].append('demo.py with change -> rc %d; without -> rc %d' % (rc1, rc0))
            print('demo with change rc=%d, without rc=%d' % (rc1, rc0))
        if not a.skip_suite:
            rc, out = sh('%s -m pytest -q -p no:cacheprovider --timeout=900 -x -n 8 2>&1 | tail -3' % PY, cwd=wt, timeout=1800, env=env)
            meta['suite_with_change'] = out.strip().splitlines()[-1] if out.strip() else ''
            meta['ran'].append('pytest in worktree with change: ' + meta['suite_with_change'])
            print('suite:', meta['suite_with_change'])
    patch = os.path.join(dest, 'patch.diff')
    checks = (a.checks or a.prop).split(',')
    results = {}
    if a.scratch:
        scratch = '/tmp/seedwt_%s_%d' % (a.seed_id.replace('/', '_'), os.getpid())
        sh('git -C /repo worktree add -q --detach %s HEAD' % scratch)
        try:
            rc, out = sh('git -C %s apply %s' % (scratch, patch))
            if rc != 0:
                print('patch does not apply:', out)
                return 2
            # does the change still break the property on this tree?  (a later repair may have made the code robust to it)
            demo = os.path.join(dest, 'demo.py')
            if os.path.exists(demo):
                drc, dout = sh('timeout 600 %s %s' % (PY, demo), cwd=scratch, env={'PYTHONPATH': scratch})
                meta['demo_on_head_with_change_rc'] = drc
                print('demo on HEAD+change rc=%d (%s)' % (drc, 'still breaks the property' if drc else 'NEUTRALISED: the property holds with this change on the current tree'))
            for c in checks:
                t0 = time.time()
                rc, out = sh('bin/check %s --tier %s' % (c, a.tier), cwd=VERIF, timeout=7200,
                             env={'BUBUS_REPO': scratch, 'VERIF_WORK': os.path.join(VERIF, '.work', 'seed_' + a.seed_id), 'VERIF_NO_EVIDENCE': '1'})
                lines = [l for l in out.splitlines() if l.startswith(('VIOLATION', 'MACHINERY', 'MODEL-DRIFT', 'KNOWN-FINDING')) or l.startswith('  witnesses')]
                results[c] = {'rc': rc, 'wall_s': round(time.time() - t0, 1), 'lines': [l[:400] for l in lines[:12]]}
                print('check %s rc=%d (%.0fs)' % (c, rc, time.time() - t0))
        finally:
            sh('git -C /repo worktree remove --force %s' % scratch)
            sh('rm -rf %s' % os.path.join(VERIF, '.work', 'seed_' + a.seed_id))
    else:
        rc, out = sh('git -C /repo status --porcelain')
        if out.strip():
            print('REFUSING: /repo has uncommitted changes')
            return 2
        rc, out = sh('git -C /repo apply %s' % patch)
        if rc != 0:
            print('patch does not apply to /repo:', out)
            return 2
        try:
            for c in checks:
                t0 = time.time()
                rc, out = sh('bin/check %s --tier %s' % (c, a.tier), cwd=VERIF, timeout=7200)
                lines = [l for l in out.splitlines() if l.startswith(('VIOLATION', 'MACHINERY', 'MODEL-DRIFT', 'KNOWN-FINDING')) or l.startswith('  witnesses')]
                results[c] = {'rc': rc, 'wall_s': round(time.time() - t0, 1), 'lines': [l[:400] for l in lines[:12]]}
                print('check %s rc=%d (%.0fs)' % (c, rc, time.time() - t0))
                for l in lines[:8]:
                    print('   ', l[:300])
        finally:
            sh('git -C /repo checkout -- .')
            rc, out = sh('git -C /repo status --porcelain')
            if out.strip():
                print('WARNING: /repo not clean after restore:', out)
    meta['checks'] = results
    meta['detected_by'] = sorted(c for c, r in results.items() if r['rc'] == 1)
    meta['ran'].append('git -C /repo apply patch.diff; bin/check {%s} --tier %s; git -C /repo checkout -- .' % (','.join(checks), a.tier))
    old = {}
    mp = os.path.join(dest, 'meta.json')
    if os.path.exists(mp):
        old = json.load(open(mp))
    old.update(meta)
    json.dump(old, open(mp, 'w'), indent=1)
    print('detected by:', meta['detected_by'])
    return 0


if __name__ == '__main__':
    sys.exit(main())
