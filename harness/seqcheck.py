"""Sequential specifications with exact replay (DESIGN.md 4.4): C12 (spec/Results.tla), C19/C20 (spec/Retry.tla).

TLC enumerates the bounded input / behaviour space and prints the expected outcome of every case; this module performs each
case on the real code of /repo and compares.  A mismatch is a violation of the property (reported with a replay file that
contains the case), never a guess: the expected value comes from the specification.
"""
import asyncio
import collections
import hashlib
import json
import multiprocessing as mp
import os
import random
import re
import sys
import time

VERIF = os.path.dirname(os.path.dirname(os.path.abspath(__file__)))
if VERIF not in sys.path:
    sys.path.insert(0, VERIF)
from harness import tlc  # noqa: E402

_CASE_RE = re.compile(r'<<"CASE", "((?:[^"\\]|\\.)*)">>')


def tlc_cases(module, cfg, workers=4):
    out, rc, wall = tlc.run_tlc(module, cfg, workers=workers, timeout=3000, heap='4g')
    if rc != 0:
        raise tlc.TLCError('%s/%s failed rc=%s\n%s' % (module, cfg, rc, '\n'.join(out.splitlines()[-30:])))
    cases = [json.loads(json.loads('"' + m.group(1) + '"')) for m in _CASE_RE.finditer(out)]
    gen, dist = tlc.stats(out)
    return cases, dist, gen


def known():
    k = json.load(open(os.path.join(VERIF, 'known_findings.json')))
    return {f['id']: f for f in k['findings']}


def write_replay(prop, case, got):
    d = os.path.join(VERIF, 'replays', 'out')
    os.makedirs(d, exist_ok=True)
    h = hashlib.sha1(json.dumps(case, sort_keys=True, default=str).encode()).hexdigest()[:10]
    path = os.path.join(d, '%s-%s.json' % (prop, h))
    json.dump({'property': prop, 'kind': 'seq', 'case': case, 'got': got}, open(path, 'w'), indent=1, default=str)
    return path


# =============================================================================================
# C12
# =============================================================================================
def _c12_env():
    from harness import engine  # sets sys.path to /repo, disables logging
    from bubus import BaseEvent
    from pydantic import BaseModel
    from typing import Literal, Optional, Union

    class ResModel(BaseModel):
        a: int
        b: str = 'x'

    class ResModel2(BaseModel):
        name: str

    class TEvent(BaseEvent):
        pass

    class Other(BaseEvent):
        pass

    types = {'none': None, 'int': int, 'str': str, 'list_int': list[int], 'list_str': list[str], 'dict_str_int': dict[str, int], 'dict_str_str': dict[str, str],
             'int_or_none': int | None, 'opt_str': Optional[str], 'opt_int': Optional[int], 'union_int_str': Union[int, str], 'union_str_float': Union[str, float],
             'literal': Literal['a', 'b'], 'literal2': Literal['c', 1], 'model': ResModel, 'model2': ResModel2}
    return locals()


def conforms(tc, v, env):
    """independent isinstance-style oracle: does the *stored* value conform to the declared type class?"""
    M = env['ResModel']
    isint = lambda x: isinstance(x, int) and not isinstance(x, bool)  # noqa
    if tc == 'none':
        return True
    if tc == 'int':
        return isint(v)
    if tc == 'str':
        return isinstance(v, str)
    if tc == 'list_int':
        return isinstance(v, list) and all(isint(x) for x in v)
    if tc == 'list_str':
        return isinstance(v, list) and all(isinstance(x, str) for x in v)
    if tc == 'dict_str_str':
        return isinstance(v, dict) and all(isinstance(k, str) and isinstance(x, str) for k, x in v.items())
    if tc == 'opt_int':
        return v is None or isint(v)
    if tc == 'union_str_float':
        return isinstance(v, str) or (isinstance(v, float) and not isinstance(v, bool))
    if tc == 'literal2':
        return v in ('c', 1) and not isinstance(v, bool)
    if tc == 'model2':
        return isinstance(v, env['ResModel2'])
    if tc == 'dict_str_int':
        return isinstance(v, dict) and all(isinstance(k, str) and isint(x) for k, x in v.items())
    if tc == 'int_or_none':
        return v is None or isint(v)
    if tc == 'opt_str':
        return v is None or isinstance(v, str)
    if tc == 'union_int_str':
        return isint(v) or isinstance(v, str)
    if tc == 'literal':
        return v in ('a', 'b')
    if tc == 'model':
        return isinstance(v, M)
    raise KeyError(tc)


def c12_values(tc, vc, env, rng, n_extra):
    """concrete returned values of a (type class, value class); [] when the pair has no instance"""
    M = env['ResModel']
    base = {
        ('int', 'conforming'): [0, 1, -7, 2 ** 40], ('int', 'coercible'): ['12', True, 3.0, b'7'], ('int', 'nonconforming'): ['zz', 1.5, [1], {'a': 1}, object()],
        ('str', 'conforming'): ['', 'x', 'héllo ☃'], ('str', 'coercible'): [b'ab'], ('str', 'nonconforming'): [3, 1.5, ['a'], {'a': 1}],
        ('list_int', 'conforming'): [[], [1], [1, 2, 3]], ('list_int', 'coercible'): [['2'], (1, 2), [True]], ('list_int', 'nonconforming'): [['x'], 'no', 5, {'a': 1}, [[1]]],
        ('dict_str_int', 'conforming'): [{}, {'a': 1}, {'a': 1, 'b': 2}], ('dict_str_int', 'coercible'): [{'a': '2'}, {'a': True}],
        ('dict_str_int', 'nonconforming'): [{1: 1}, {'a': 'x'}, [('a', 1)], 'no', 3],
        ('int_or_none', 'conforming'): [1, 0], ('int_or_none', 'coercible'): ['5'], ('int_or_none', 'nonconforming'): ['q', [1], 1.5],
        ('opt_str', 'conforming'): ['a', ''], ('opt_str', 'coercible'): [b'zz'], ('opt_str', 'nonconforming'): [3, ['a'], 2.5],
        ('union_int_str', 'conforming'): [1, 'a', 0, ''], ('union_int_str', 'coercible'): [], ('union_int_str', 'nonconforming'): [1.5, [1], {'a': 1}],
        ('literal', 'conforming'): ['a', 'b'], ('literal', 'coercible'): [], ('literal', 'nonconforming'): ['c', 1, ['a'], ''],
        ('model', 'conforming'): [M(a=1), M(a=2, b='y')], ('model', 'coercible'): [{'a': 1}, {'a': '3', 'b': 'z'}], ('model', 'nonconforming'): [{'a': 'x'}, {'b': 1}, 5, 'no', []],
        ('list_str', 'conforming'): [[], ['a'], ['a', 'b']], ('list_str', 'coercible'): [('x', 'y')], ('list_str', 'nonconforming'): [[1, 2], [1], 'no', [['a']], {'a': 'b'}],
        ('dict_str_str', 'conforming'): [{}, {'k': 'v'}], ('dict_str_str', 'coercible'): [], ('dict_str_str', 'nonconforming'): [{'k': 7}, {'a': 1, 'b': 2}, {1: 'x'}, ['k'], 3],
        ('opt_int', 'conforming'): [3, 0], ('opt_int', 'coercible'): ['8'], ('opt_int', 'nonconforming'): ['abc', [2], 2.5],
        ('union_str_float', 'conforming'): ['s', 1.5], ('union_str_float', 'coercible'): [], ('union_str_float', 'nonconforming'): [[1], {'a': 1}, None.__class__],
        ('literal2', 'conforming'): ['c', 1], ('literal2', 'coercible'): [], ('literal2', 'nonconforming'): ['a', 2, 'b', [1]],
        ('model2', 'conforming'): [env['ResModel2'](name='n')], ('model2', 'coercible'): [{'name': 'z'}], ('model2', 'nonconforming'): [{'a': 1}, {'name': [1]}, M(a=1), 7],
        ('none', 'conforming'): [0, 'x', [1, 'a'], {'k': object}, 1.5, object()], ('none', 'coercible'): [], ('none', 'nonconforming'): [],
    }
    if vc == 'None':
        return [None]
    if vc == 'exception':
        return [ValueError('returned'), RuntimeError('r2'), KeyError('k')]
    if vc == 'event':
        return [env['Other']()]
    vals = list(base.get((tc, vc), []))
    for _ in range(n_extra):  # seeded generated values of the same class
        if (tc, vc) == ('int', 'conforming'):
            vals.append(rng.randint(-10 ** 9, 10 ** 9))
        elif (tc, vc) == ('int', 'coercible'):
            vals.append(str(rng.randint(-999, 999)))
        elif (tc, vc) == ('str', 'conforming'):
            vals.append(''.join(chr(rng.choice([rng.randint(32, 126), rng.randint(0x400, 0x4ff)])) for _ in range(rng.randint(0, 8))))
        elif (tc, vc) == ('list_int', 'conforming'):
            vals.append([rng.randint(-5, 5) for _ in range(rng.randint(0, 5))])
        elif (tc, vc) == ('list_int', 'nonconforming'):
            vals.append([rng.randint(0, 3) for _ in range(rng.randint(0, 3))] + ['x%d' % rng.randint(0, 9)])
        elif (tc, vc) == ('dict_str_int', 'conforming'):
            vals.append({'k%d' % rng.randint(0, 5): rng.randint(-3, 3) for _ in range(rng.randint(0, 4))})
        elif (tc, vc) == ('dict_str_int', 'nonconforming'):
            vals.append({'k%d' % rng.randint(0, 5): 'v%d' % rng.randint(0, 9) for _ in range(rng.randint(1, 3))})
        elif (tc, vc) == ('union_int_str', 'conforming'):
            vals.append(rng.choice([rng.randint(-9, 9), 's%d' % rng.randint(0, 99)]))
        elif (tc, vc) == ('model', 'coercible'):
            vals.append({'a': rng.randint(-9, 9), 'b': 'b%d' % rng.randint(0, 9)})
        elif (tc, vc) == ('model', 'nonconforming'):
            vals.append({'a': 'nope%d' % rng.randint(0, 9)})
        elif (tc, vc) == ('none', 'conforming'):
            vals.append(rng.choice([rng.random(), [rng.randint(0, 9)], {'x': rng.randint(0, 9)}, 'free%d' % rng.randint(0, 99)]))
    return vals


def _mk_handler(i):
    def h(e):
        return None
    h.__name__ = 'h%d' % i
    h.__qualname__ = 'h%d' % i
    return h


async def _c12_type_case(case, env, rng, n_extra):
    tc, vc, exp = case['tc'], case['vc'], case['exp']
    bad = []
    vals = c12_values(tc, vc, env, rng, n_extra)
    for v in vals:
        kw = {} if env['types'][tc] is None else {'event_result_type': env['types'][tc]}
        ev = env['TEvent'](**kw)
        r = ev.event_result_update(handler=_mk_handler(0), result=v)
        ok = r.status == exp['st']
        if exp['val'] == 'none':
            ok = ok and r.result is None
        elif exp['val'] == 'same':
            ok = ok and r.result is v
        elif exp['val'] == 'equal':
            ok = ok and r.result == v and conforms(tc, r.result, env)
        elif exp['val'] == 'coerced':
            ok = ok and r.result is not None and conforms(tc, r.result, env)
        if exp['err'] == '':
            ok = ok and r.error is None
        elif exp['err'] == 'the_returned_exception':
            ok = ok and r.error is v
        else:
            ok = ok and type(r.error).__name__ == exp['err']
        if not ok:
            bad.append({'value': repr(v), 'got': {'st': r.status, 'val': repr(r.result), 'err': repr(r.error)}})
    return len(vals), bad


def _c12_token_values(env):
    return {'none': None, 'zero': 0, 'i1': 1, 's1': 'x', 'd0': {}, 'd1': {'a': 'd1'}, 'd2': {'a': 'd2', 'c': 'd2'}, 'd3': {'b': 'd3'},
            'l0': [], 'l1': ['x1'], 'l2': ['x2', 'x3']}


_INCL = {'all': lambda r: True, 'nothing': lambda r: False, 'completed': lambda r: r.status == 'completed'}


async def _c12_view_case(case, env):
    tv = _c12_token_values(env)
    ev = env['TEvent']()
    hs, objs = [], []
    for i, t in enumerate(case['rs']):
        h = _mk_handler(i)
        hs.append(h)
        if t in ('err1', 'err2'):
            o = ValueError(t)
            ev.event_result_update(handler=h, error=o)
        elif t == 'ev':
            o = env['Other']()
            ev.event_result_update(handler=h, result=o)
        else:
            o = tv[t]
            ev.event_result_update(handler=h, result=o)
        objs.append(o)
    # the views are defined in handler (registration) order, whatever the order in which the handlers finished: give every other case
    # completion / start times that run against the handler order (what a parallel_handlers bus produces)
    rs_all = list(ev.event_results.values())
    if len(rs_all) > 1 and int(hashlib.sha1(json.dumps([case['rs'], case['f'], case['any'], case['none']]).encode()).hexdigest(), 16) % 2 == 0:
        import datetime as _dt
        base = _dt.datetime.now(_dt.timezone.utc)
        for k, r in enumerate(rs_all):
            if r.completed_at is not None:
                r.completed_at = base + _dt.timedelta(milliseconds=10 * (len(rs_all) - k))
            if r.started_at is not None:
                r.started_at = base - _dt.timedelta(milliseconds=10 * (k + 1))
    ev.event_completed_signal.set()
    errobjs = list(objs)
    objs = [None if t in ('err1', 'err2') else o for t, o in zip(case['rs'], objs)]   # an error result holds no value
    ids = list(ev.event_results.keys())
    names = [r.handler_name for r in ev.event_results.values()]
    bad = []
    for name, exp in case['exp'].items():
        kw = {'raise_if_any': case['any'], 'raise_if_none': case['none'], 'timeout': 5}
        if case['f'] != 'default':
            kw['include'] = _INCL[case['f']]
        if name == 'event_results_flat_dict':
            kw['raise_if_conflicts'] = case['confl']
        try:
            got = await getattr(ev, name)(**kw)
            gk = 'ok'
        except BaseException as ex:  # noqa
            got, gk = ex, 'raise'
        ok = True
        if exp['k'] == 'raise':
            tok = exp['v'][0]
            if gk != 'raise':
                ok = False
            elif tok in ('err1', 'err2'):
                ok = got is errobjs[case['rs'].index(tok)]
            else:
                ok = type(got).__name__ == tok
        elif gk == 'raise':
            ok = False
        elif name == 'event_result':
            want = exp['v'][0]
            pos = [i for i in case['idx']][:1]
            ok = (got is None) if not pos else (got is objs[pos[0] - 1] or got == objs[pos[0] - 1]) and want == case['rs'][pos[0] - 1]
        elif name == 'event_results_list':
            ok = isinstance(got, list) and len(got) == len(case['idx']) and all(g is objs[i - 1] or g == objs[i - 1] for g, i in zip(got, case['idx'])) \
                and [case['rs'][i - 1] for i in case['idx']] == exp['v']
        elif name == 'event_results_by_handler_id':
            ok = isinstance(got, dict) and list(got.keys()) == [ids[i - 1] for i in case['idx']] and all(got[ids[i - 1]] == objs[i - 1] for i in case['idx'])
        elif name == 'event_results_by_handler_name':
            ok = isinstance(got, dict) and list(got.keys()) == [names[i - 1] for i in case['idx']] and all(got[names[i - 1]] == objs[i - 1] for i in case['idx'])
        elif name == 'event_results_flat_dict':
            want = exp['v'] if isinstance(exp['v'], dict) else {}
            ok = got == want
        elif name == 'event_results_flat_list':
            ok = got == exp['v']
        if not ok:
            bad.append({'accessor': name, 'expected': exp, 'got': ('raise ' + repr(got)) if gk == 'raise' else repr(got)})
    return bad


def _c12_chunk(args):
    kind, cases, seed, n_extra = args
    env = _c12_env()
    rng = random.Random(seed)
    loop = asyncio.new_event_loop()
    asyncio.set_event_loop(loop)
    out = []
    n = 0

    async def run():
        nonlocal n
        for c in cases:
            if kind == 'types':
                k, bad = await _c12_type_case(c, env, rng, n_extra)
                n += k
            else:
                bad = await _c12_view_case(c, env)
                n += len(c['exp'])
            if bad:
                out.append((c, bad))
    loop.run_until_complete(run())
    loop.close()
    return n, out


def check_c12(tier, seed):
    t0 = time.time()
    tcases, s1, g1 = tlc_cases('Results.tla', 'Results_types.cfg')
    vcases, s2, g2 = tlc_cases('Results.tla', 'Results_views.cfg' if tier == 'quick' else 'Results_views3.cfg', workers=8)
    n_extra = 5 if tier == 'quick' else 200
    jobs = []
    for i in range(8 if tier == 'quick' else 32):
        order = list(tcases)
        random.Random(seed * 100 + i).shuffle(order)   # every order in one process: results must not depend on what was validated before
        jobs.append(('types', order, seed * 1000 + i, n_extra))
    step = max(50, len(vcases) // 64)
    for i in range(0, len(vcases), step):
        jobs.append(('views', vcases[i:i + step], seed, 0))
    ctx = mp.get_context('fork')
    with ctx.Pool(16) as pool:
        res = pool.map(_c12_chunk, jobs)
    evals = sum(n for n, _ in res)
    bad = [x for _, b in res for x in b]
    kf = known()
    viol = []
    kf_seen = collections.Counter()
    for case, b in bad:
        viol.append((case, b))
    rc = 0
    paths = []
    for case, b in viol[:20]:
        p = write_replay('C12', case, b)
        paths.append(p)
        print('VIOLATION property=C12 replay=%s' % p)
        print('  case %s -> %s' % (json.dumps({k: v for k, v in case.items() if k != 'exp'}), json.dumps(b[:2], default=str)[:400]))
        rc = 1
    nontrivial = len(tcases) + len(vcases)
    ev = {
        'property_id': 'C12', 'tier': tier, 'seed': seed, 'level': 'model_checking',
        'coverage': {
            'states': s1 + s2, 'transitions': g1 + g2, 'traces_validated_against_impl': len(tcases) + len(vcases),
            'samples': [tcases[0], {k: v for k, v in vcases[len(vcases) // 2].items()}],
            'evaluations': evals, 'distinct_nontrivial': nontrivial,
            'rule': 'TLC enumerates every (declared type class x returned value class) pair and every result sequence of length <= %d over %d result tokens x 4 include '
                    'filters x raise_if_any x raise_if_none x raise_if_conflicts (spec/Results.tla); each enumerated case is one distinct non-trivial case; every case is '
                    'performed on the real EventResult / accessor code (type cases with %d extra seeded values per class) and compared with the outcome the '
                    'specification prints' % (2 if tier == 'quick' else 3, 14, n_extra),
            'type_cases': len(tcases), 'view_cases': len(vcases), 'mismatching_cases': len(bad), 'exhaustive': True,
        },
        'assumptions': ['pydantic lax-mode coercion defines which values are "coercible"; the oracle for "conforms" is the isinstance-style checker in harness/seqcheck.py',
                        'handler names are unique (name-keyed views cannot represent duplicates; the library warns at registration)'],
        'wall_s': round(time.time() - t0, 2), 'violations': len(viol),
    }
    if not os.environ.get('VERIF_NO_EVIDENCE'):
        os.makedirs(os.path.join(VERIF, 'evidence'), exist_ok=True)
        json.dump(ev, open(os.path.join(VERIF, 'evidence', 'C12.json'), 'w'), indent=1, default=str)
    print('C12 %s: %d type cases + %d view cases enumerated by TLC, %d concrete evaluations, %d mismatches, wall %.1fs' % (
        tier, len(tcases), len(vcases), evals, len(bad), time.time() - t0))
    return rc


def check(prop, tier, seed):
    if prop == 'C12':
        return check_c12(tier, seed)
    if prop in ('C19', 'C20'):
        from harness import retrycheck
        return retrycheck.check(prop, tier, seed)
    if prop == 'C17':
        from harness import walcheck
        return walcheck.check(tier, seed)
    print('no check for %s' % prop)
    return 2
