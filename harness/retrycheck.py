"""C19 / C20: bubus.helpers.retry against spec/Retry.tla (exact replay under virtual time).

For a batch of scenarios TLC (a) checks the invariants of Retry.tla on every reachable state and (b) prints the timeline of every
behaviour; each scenario is then performed on the real decorator in a virtual-time loop and its observed timeline must be one
of the specification's timelines for that scenario.  After every scenario a black-box capacity probe checks that exactly
`limit` fresh callers can enter each semaphore (no leaked or surplus slot), and pairs of scenarios are run in successive event
loops without clearing the semaphore registry.
"""
import asyncio
import collections
import itertools
import json
import multiprocessing as mp
import os
import random
import re
import sys
import time

VERIF = os.path.dirname(os.path.dirname(os.path.abspath(__file__)))
if VERIF not in sys.path:
    sys.path.insert(0, VERIF)
from harness import tlc, vloop  # noqa: E402
from harness.seqcheck import tlc_cases, write_replay, _CASE_RE  # noqa: E402

BFS = [(1, 2), (1, 1), (3, 2), (2, 1)]
KINDS = {'ok': ('ok', 5), 'li': ('listed', 3), 'un': ('unlisted', 4), 'ov': ('ok', 30)}


def caller(key='k1', arrive=0, retries=0, wait=8, bf=(1, 1), timeout=20, restricted=False, attempts=(), cancel_at=-1):
    return {'key': key, 'arrive': arrive, 'retries': retries, 'wait': wait, 'bfn': bf[0], 'bfd': bf[1], 'timeout': timeout,
            'restricted': restricted, 'attempts': [{'kind': k, 'dur': d} for k, d in attempts], 'cancel_at': cancel_at}


def scn(sid, callers, limit=0, lax=True, semto=-1, scope='global'):
    n = int(re.sub(r'\D', '', sid) or 0)
    # every other scenario: the spawning task has used a @retry function before (see `warm` in _perform); not part of the timeline
    return {'id': sid, 'sid': sid, 'limit': limit, 'lax': lax, 'semto': semto, 'scope': scope, 'callers': callers, 'warm': n % 2 == 1}


def gen_c19(tier, seed):
    out = []
    n = 0
    for retries in range(0, 4):
        for outcome in itertools.product(['ok', 'li', 'un', 'ov'], repeat=retries + 1):
            for wait, bf, restricted in itertools.product([8, 16], BFS, [False, True]):
                if tier == 'quick' and (n % 3) != (seed % 3) and retries == 3:
                    n += 1
                    continue
                n += 1
                atts = [KINDS[o] for o in outcome]
                out.append(scn('s%d' % len(out), [caller(retries=retries, wait=wait, bf=bf, restricted=restricted, attempts=atts)]))
    # cancellation at every distinct instant of a few timelines (during an attempt, during a backoff, at an attempt boundary)
    rng = random.Random(seed)
    base = [(2, ['li', 'li', 'ok']), (2, ['ov', 'li', 'li']), (1, ['li', 'ok']), (3, ['li', 'ov', 'un', 'ok']), (0, ['ok'])]
    for retries, oc in base:
        for wait, bf in [(8, (2, 1)), (16, (3, 2)), (8, (1, 1))]:
            for tc in range(1, 90, 2 if tier == 'quick' else 1):
                out.append(scn('s%d' % len(out), [caller(retries=retries, wait=wait, bf=bf, attempts=[KINDS[o] for o in oc], cancel_at=tc)]))
    # overlapping calls of the *same* decorated function (same parameters): one call's attempts start and fail while another call's attempt
    # is in flight; every call must keep its own attempt count, waits and last exception
    for _ in range(150 if tier == 'quick' else 3000):
        retries = rng.randint(1, 3)
        wait, bf, restricted = rng.choice([8, 16]), rng.choice(BFS), rng.random() < 0.4
        cs = []
        for i in range(rng.randint(2, 3)):
            atts = [(rng.choice(['listed', 'listed', 'ok', 'unlisted']), rng.choice([2, 3, 5, 7, 11, 13])) for _ in range(retries + 1)]
            cs.append(caller(arrive=rng.choice([0, 1, 2, 3, 4, 6, 9]), retries=retries, wait=wait, bf=bf, timeout=20, restricted=restricted, attempts=atts))
        out.append(scn('s%d' % len(out), cs))
    for _ in range(200 if tier == 'quick' else 5000):   # random parameters (dyadic factors keep the arithmetic exact)
        retries = rng.randint(0, 4)
        atts = [(rng.choice(['ok', 'listed', 'unlisted']), rng.choice([1, 2, 3, 5, 7, 11, 25, 33])) for _ in range(retries + 1)]
        out.append(scn('s%d' % len(out), [caller(retries=retries, wait=rng.choice([8, 16, 32, 64]), bf=rng.choice(BFS), timeout=rng.choice([10, 20]),
                                                 restricted=rng.random() < 0.5, attempts=atts, cancel_at=rng.choice([-1, -1, rng.randint(1, 120)]))]))
    return out


def gen_c20(tier, seed):
    out = []
    rng = random.Random(seed + 77)
    # systematic: limit x lax x acquisition timeout x number of callers, one key, staggered arrivals
    for limit, lax, semto, ncall, dur, scope in itertools.product([1, 2], [True, False], [-1, 0, 7, 25], [2, 3, 4], [5, 12, 30], ['global', 'class', 'self']):
        cs = [caller(key='k1', arrive=i, timeout=20, attempts=[('ok', dur)]) for i in range(ncall)]
        out.append(scn('s%d' % len(out), cs, limit=limit, lax=lax, semto=semto, scope=scope))
    # the first caller (it acquires at once) is cancelled right after it entered the decorator, later callers must still find every slot
    for limit, lax, scope, nlate, c_at in itertools.product([1, 2], [True, False], ['global', 'class', 'self'], [1, 2], [1, 2]):
        cs = [caller(key='k1', arrive=0, timeout=20, attempts=[('ok', 9)], cancel_at=c_at)]
        cs += [caller(key='k1', arrive=3 + i, timeout=20, attempts=[('ok', 4)]) for i in range(nlate + limit - 1)]
        out.append(scn('s%d' % len(out), cs, limit=limit, lax=lax, semto=25, scope=scope))
    n = 600 if tier == 'quick' else 12000
    for _ in range(n):
        limit = rng.choice([1, 1, 2, 3])
        ncall = rng.randint(2, 5)
        nkeys = rng.choice([1, 1, 2])
        cs = []
        for i in range(ncall):
            retries = rng.choice([0, 0, 1, 2])
            atts = [(rng.choice(['ok', 'ok', 'listed', 'unlisted']), rng.choice([2, 4, 6, 9, 13, 31])) for _ in range(retries + 1)]
            cs.append(caller(key='k%d' % rng.randint(1, nkeys), arrive=rng.choice([0, 0, 1, 2, 3, 5, 8, 15]), retries=retries, wait=rng.choice([8, 16]),
                             bf=rng.choice(BFS), timeout=20, restricted=rng.random() < 0.4, attempts=atts,
                             cancel_at=rng.choice([-1, -1, -1, rng.randint(1, 60)])))
        for c in cs:   # a caller is created at its arrival: cancellation can only come later
            if c['cancel_at'] >= 0 and c['cancel_at'] <= c['arrive']:
                c['cancel_at'] = c['arrive'] + 1
        out.append(scn('s%d' % len(out), cs, limit=limit, lax=rng.random() < 0.5, semto=rng.choice([-1, -1, 0, 5, 11, 40]),
                       scope=rng.choice(['global', 'global', 'class', 'self'])))
    return out


# ---------------------------------------------------------------------------------------------
# performing a scenario on the real decorator
# ---------------------------------------------------------------------------------------------
class ListedError(Exception):
    pass


class UnlistedError(Exception):
    pass


def _perform(scn_list, clear_registry=True):
    """runs the scenarios one after another, each in its own fresh virtual loop; returns [(observed log, probe result)]"""
    from harness import engine  # noqa  (path + logging setup)
    import bubus.helpers as H
    results = []
    if clear_registry:
        H.GLOBAL_RETRY_SEMAPHORES.clear()
    for s in scn_list:
        # the periodic system-overload probe of the decorator (psutil, at most once per 5 s of real time) sits between acquiring the slot
        # and the try / finally that releases it: make it run in every scenario (first call), with a stub instead of psutil's 0.1 s sample
        H._last_overload_check = 0
        H._check_system_overload = lambda: (False, '')
        # no real threads under the virtual clock: a thread hop (asyncio.to_thread) is modelled as a suspension that takes 1.5 ms of virtual
        # time, so that a cancellation scheduled one tick after a call entered the decorator can land inside it
        async def _fake_to_thread(fn, /, *a, **k):
            await asyncio.sleep(0.0015)
            return fn(*a, **k)
        asyncio.to_thread = _fake_to_thread
        log = []
        loop_holder = {}

        def now():
            return loop_holder['loop'].ms()

        c0 = s['callers'][0]
        state = {}

        def make_body(tag):
            async def body(self_or_idx, idx=None):
                i = idx if idx is not None else self_or_idx
                st = state[i]
                k = st['k']
                st['k'] += 1
                cdef = s['callers'][i - 1]
                o = cdef['attempts'][k] if k < len(cdef['attempts']) else {'kind': 'ok', 'dur': 1}
                log.append({'t': now(), 'c': i, 'ev': 'start', 'k': k, 'how': ''})
                try:
                    await asyncio.sleep(o['dur'] / 1000.0)
                except asyncio.CancelledError:
                    log.append({'t': now(), 'c': i, 'ev': 'end', 'k': k, 'how': 'cancelled'})
                    raise
                if o['kind'] == 'ok':
                    log.append({'t': now(), 'c': i, 'ev': 'end', 'k': k, 'how': 'ok'})
                    v = ('value', i, k)
                    st['vals'][k] = v
                    return v
                ex = (ListedError if o['kind'] == 'listed' else UnlistedError)('c%d k%d' % (i, k))
                st['excs'][k] = ex
                log.append({'t': now(), 'c': i, 'ev': 'end', 'k': k, 'how': 'exc'})
                raise ex
            return body

        kw = dict(wait=c0['wait'] / 1000.0, retries=0, timeout=c0['timeout'] / 1000.0, backoff_factor=1.0)
        # the decorator parameters are per function: one decorated function per distinct parameter tuple
        funcs = {}

        def get_func(cdef):
            key = (cdef['retries'], cdef['wait'], cdef['bfn'], cdef['bfd'], cdef['timeout'], cdef['restricted'], cdef['key'] if s['scope'] == 'global' else '')
            if key not in funcs:
                deco = H.retry(wait=cdef['wait'] / 1000.0, retries=cdef['retries'], timeout=cdef['timeout'] / 1000.0,
                               retry_on=(ListedError,) if cdef['restricted'] else None, backoff_factor=cdef['bfn'] / cdef['bfd'],
                               semaphore_limit=s['limit'] or None, semaphore_name=('sem_' + cdef['key']) if s['scope'] == 'global' else 'sem',
                               semaphore_lax=s['lax'], semaphore_scope=s['scope'],
                               semaphore_timeout=None if s['semto'] < 0 else s['semto'] / 1000.0)
                funcs[key] = deco(make_body(key))
            return funcs[key]

        owners = {}

        def owner_for(cdef):
            # scope 'class': one class per key; scope 'self': one instance per key
            k = cdef['key']
            if k not in owners:
                cls = type('Owner_' + k, (), {})
                owners[k] = cls()
            return owners[k]

        async def run_caller(i, cdef):
            await asyncio.sleep(cdef['arrive'] / 1000.0)
            state[i] = {'k': 0, 'vals': {}, 'excs': {}}
            fn = get_func(cdef)

            async def call():
                if s['scope'] == 'global':
                    return await fn(i)
                return await fn(owner_for(cdef), i)
            task = asyncio.ensure_future(call())
            canceller = None
            if cdef['cancel_at'] >= 0:
                async def cancel_later():
                    await asyncio.sleep((cdef['cancel_at'] - cdef['arrive']) / 1000.0)
                    task.cancel()
                canceller = asyncio.ensure_future(cancel_later())
            try:
                v = await task
                k = [kk for kk, vv in state[i]['vals'].items() if vv is v]
                log.append({'t': now(), 'c': i, 'ev': 'final', 'k': k[0] if k else -99, 'how': 'ret'})
            except asyncio.CancelledError:
                mine = [l for l in log if l['c'] == i]
                # cancelled inside the body iff the body has just logged its own cancellation
                k = mine[-1]['k'] if (mine and mine[-1]['ev'] == 'end' and mine[-1]['how'] == 'cancelled' and mine[-1]['t'] == now()) else -1
                log.append({'t': now(), 'c': i, 'ev': 'final', 'k': k, 'how': 'cancelled'})
            except TimeoutError as ex:
                if 'semaphore' in str(ex):
                    log.append({'t': now(), 'c': i, 'ev': 'final', 'k': -1, 'how': 'sem_timeout'})
                else:
                    log.append({'t': now(), 'c': i, 'ev': 'final', 'k': state[i]['k'] - 1, 'how': 'raise_timeout'})
            except BaseException as ex:  # noqa
                k = [kk for kk, vv in state[i]['excs'].items() if vv is ex]
                log.append({'t': now(), 'c': i, 'ev': 'final', 'k': k[0] if k else -99, 'how': 'raise'})
            finally:
                if canceller is not None and not canceller.done():
                    canceller.cancel()

        probe = {}

        async def main():
            loop_holder['loop'] = asyncio.get_running_loop()
            if s.get('warm'):
                # the task that spawns the callers has itself used a @retry function before (zero duration, its own semaphore): whatever
                # per-context state the decorator keeps is then inherited by every caller task
                async def warm_body():
                    return None
                await H.retry(wait=0, retries=0, timeout=5, semaphore_limit=1, semaphore_name='warmup_' + str(s.get('sid', '')), semaphore_lax=False)(warm_body)()
            tasks = [asyncio.ensure_future(run_caller(i, c)) for i, c in enumerate(s['callers'], start=1)]
            await asyncio.wait(tasks)
            await asyncio.sleep(0.5)
            # capacity probe: limit + 1 fresh callers per key with bodies that block; exactly `limit` may enter
            if s['limit']:
                for k in sorted({c['key'] for c in s['callers']}):
                    gate = asyncio.Event()
                    entered = []

                    async def pbody(self_or_idx, idx=None):
                        entered.append(1)
                        await gate.wait()
                    pf = H.retry(wait=0, retries=0, timeout=50, semaphore_limit=s['limit'], semaphore_name=('sem_' + k) if s['scope'] == 'global' else 'sem',
                                 semaphore_lax=False, semaphore_scope=s['scope'], semaphore_timeout=30)(pbody)
                    cdef = next(c for c in s['callers'] if c['key'] == k)
                    if s['scope'] == 'global':
                        pts = [asyncio.ensure_future(pf(0)) for _ in range(s['limit'] + 1)]
                    else:
                        pts = [asyncio.ensure_future(pf(owner_for(cdef), 0)) for _ in range(s['limit'] + 1)]
                    for _ in range(20):
                        await asyncio.sleep(0)
                    probe[k] = len(entered)
                    gate.set()
                    await asyncio.wait(pts)

        _, abort = vloop.run(main, horizon=60.0)
        results.append({'log': log, 'probe': probe, 'abort': abort})
    return results


def _perform_chunk(args):
    scns, pairs = args
    out = []
    if not pairs:
        for s in scns:
            r = _perform([s])[0]
            out.append((s['id'], r))
    else:
        # successive event loops in one process, registry NOT cleared in between (finding F13, repaired)
        for a, b in zip(scns[0::2], scns[1::2]):
            ra, rb = _perform([a, b])
            out.append((a['id'], ra))
            out.append((b['id'], rb))
    return out


def _norm(log):
    return json.dumps([[l['t'], l['c'], l['ev'], l['k'], l['how']] for l in sorted(log, key=lambda l: (l['t'], l['c']))])


def check(prop, tier, seed):
    t0 = time.time()
    scns = gen_c19(tier, seed) if prop == 'C19' else gen_c20(tier, seed)
    wd = tlc.workdir('retry')
    batches = [scns[i:i + 400] for i in range(0, len(scns), 400)]
    expected = collections.defaultdict(set)
    states = trans = 0
    import concurrent.futures as cf

    def one(ib):
        i, b = ib
        f = os.path.join(wd, 'scn%d.json' % i)
        json.dump(b, open(f, 'w'))
        out, rc, wall = tlc.run_tlc('Retry.tla', 'Retry.cfg', env={'SCENARIO_FILE': f}, workers=1, timeout=3000, heap='3g')
        return out, rc

    with cf.ThreadPoolExecutor(max_workers=12) as ex:
        for out, rc in ex.map(one, list(enumerate(batches))):
            if rc != 0:
                print('MACHINERY-FAILURE Retry.tla: TLC failed or an invariant of the specification is violated\n%s' % '\n'.join(out.splitlines()[-25:]))
                return 2
            g, d = tlc.stats(out)
            states += d
            trans += g
            for m in _CASE_RE.finditer(out):
                c = json.loads(json.loads('"' + m.group(1) + '"'))
                expected[c['id']].add(_norm(c['log']))
    # perform on the real code
    jobs = []
    step = 40
    for i in range(0, len(scns), step):
        jobs.append((scns[i:i + step], False))
    if prop == 'C20':
        cont = [s for s in scns if s['limit'] and len(s['callers']) > s['limit']]
        for i in range(0, len(cont) - 1, step):
            part = cont[i:i + step]
            if len(part) % 2:
                part = part[:-1]
            jobs.append((part, True))
    ctx = mp.get_context('fork')
    with ctx.Pool(16) as pool:
        res = pool.map(_perform_chunk, jobs)
    byid = {s['id']: s for s in scns}
    viol = []
    evals = 0
    for chunk, (cs, pairs) in zip(res, jobs):
        for sid, r in chunk:
            evals += 1
            s = byid[sid]
            why = None
            if r['abort']:
                why = 'aborted: %s' % r['abort']
            elif _norm(r['log']) not in expected[sid]:
                why = 'timeline is not a behaviour of spec/Retry.tla'
            elif any(v != s['limit'] for v in r['probe'].values()):
                why = 'capacity probe: %s entered, limit %d' % (r['probe'], s['limit'])
            if why:
                viol.append((s, {'why': why, 'observed': r['log'], 'probe': r['probe'], 'successive_loops': pairs,
                                 'expected_one_of': [json.loads(x) for x in list(expected[sid])[:2]]}))
    import shutil
    shutil.rmtree(wd, ignore_errors=True)
    rc = 0
    for s, got in viol[:15]:
        p = write_replay(prop, s, got)
        print('VIOLATION property=%s replay=%s' % (prop, p))
        print('  %s; scenario %s' % (got['why'], json.dumps(s)[:300]))
        rc = 1
    ev = {
        'property_id': prop, 'tier': tier, 'seed': seed, 'level': 'model_checking',
        'coverage': {
            'states': max(1, states), 'transitions': max(1, trans), 'traces_validated_against_impl': evals,
            'samples': [scns[0], scns[len(scns) // 2], {'expected_timeline': json.loads(next(iter(expected[scns[len(scns) // 2]['id']])))}],
            'evaluations': evals, 'distinct_nontrivial': len({json.dumps({k: v for k, v in s.items() if k != 'id'}, sort_keys=True) for s in scns}),
            'rule': 'scenarios (decorator parameters x per-attempt outcome sequences x cancellation instants%s) generated systematically and from the seed; TLC checks '
                    'the invariants of spec/Retry.tla on all reachable states of every scenario and prints every behaviour\'s timeline; each scenario is performed '
                    'on the real bubus.helpers.retry under a virtual clock and its timeline must equal one of the specification\'s; distinct = distinct scenario documents'
                    % (' x callers x limits x scopes x lax/strict x acquisition timeouts, plus a capacity probe and successive-event-loop pairs' if prop == 'C20' else ''),
            'scenarios': len(scns), 'behaviours_in_spec': sum(len(v) for v in expected.values()), 'exhaustive': False,
        },
        'assumptions': ['virtual clock: sleeps take exactly their nominal time; parameters are chosen so that wait*backoff**k is exact in binary floating point',
                        'multiprocess semaphore scope is outside the statement and not modelled'],
        'wall_s': round(time.time() - t0, 2), 'violations': len(viol),
    }
    if not os.environ.get('VERIF_NO_EVIDENCE'):
        os.makedirs(os.path.join(VERIF, 'evidence'), exist_ok=True)
        json.dump(ev, open(os.path.join(VERIF, 'evidence', prop + '.json'), 'w'), indent=1, default=str)
    print('%s %s: %d scenarios, %d spec states, %d behaviours, %d executions on the real decorator, %d mismatches, wall %.1fs' % (
        prop, tier, len(scns), states, sum(len(v) for v in expected.values()), evals, len(viol), time.time() - t0))
    return rc
