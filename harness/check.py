"""bin/check: decide one property (DESIGN.md section 9).

  bin/check Cxx [--tier quick|thorough] [--seed N]
  bin/check replay <file>
  bin/check selftest

exit 0: the property held on everything explored (recorded findings are printed as KNOWN-FINDING lines)
exit 1: `VIOLATION property=<id> replay=<path>` - a clause of the property is false on an execution of the real code
        (or in the bounded model, confirmed by replay) and no recorded finding explains it
exit 2: machinery failure (TLC error, probe missing, vacuous run)
"""
import argparse
import collections
import hashlib
import json
import os
import sys
import time

VERIF = os.path.dirname(os.path.dirname(os.path.abspath(__file__)))
if VERIF not in sys.path:
    sys.path.insert(0, VERIF)

from harness import families, runner, tlc  # noqa: E402

PROPS = ['C%02d' % i for i in range(1, 21)]

# scenario plan: property -> tier -> [(family, count or None)]
PLAN = {
    'C01': {'quick': [('nest', 500), ('redispatch', None), ('await_pos', 192), ('errors', 120), ('recursion', None), ('fwd3', 150), ('hist_rand', 120), ('timeout', None), ('late_on', None), ('timeout_stray', None), ('redispatch_evict', None)],
            'thorough': [('nest', 12000), ('late_on', None), ('timeout_stray', None), ('redispatch_evict', None), ('redispatch', None), ('await_pos', None), ('errors', None), ('recursion', None), ('fwd3', None), ('fwd', 2000), ('hist_rand', 3000), ('timeout', None), ('timeout_rand', 2000)]},
    'C02': {'quick': [('nest', 500), ('await_pos', None), ('fwd3', 200), ('firstuse', None), ('life', 150), ('cancel_cleanup', None), ('gather_await', 96), ('idle_in_handler', None)],
            'thorough': [('nest', 12000), ('await_pos', None), ('fwd3', None), ('fwd', 3000), ('firstuse', None), ('life', None), ('hist_rand', 2000), ('cancel_cleanup', None), ('idle_in_handler', None), ('gather_await', None)]},
    'C03': {'quick': [('nest', 500), ('await_pos', 192), ('recursion', None), ('errors', 120), ('fwd3', 150), ('hist', 150), ('par_timeout', 72), ('timeout_stray', None), ('timeout_rand', 100)],
            'thorough': [('nest', 12000), ('await_pos', None), ('recursion', None), ('errors', None), ('fwd3', None), ('fwd', 2000), ('hist', None), ('hist_rand', 3000), ('timeout_rand', 2000), ('par_timeout', None), ('timeout_par_rand', 2000), ('timeout_stray', None)]},
    'C04': {'quick': [('await_pos', None), ('nest', 500), ('firstuse', None), ('fwd', 150), ('deep_timeout', None), ('await_after_stop', None), ('idle_target', None), ('gather_await', None), ('timeout_stray', None)],
            'thorough': [('await_pos', None), ('nest', 15000), ('firstuse', None), ('fwd', 3000), ('hist_rand', 2000), ('timeout_rand', 2000), ('await_after_stop', None), ('idle_target', None), ('gather_await', None), ('timeout_stray', None)]},
    'C05': {'quick': [('await_pos', None), ('nest', 500), ('firstuse', None), ('timeout', None), ('deep_timeout', None), ('hist_rand', 150), ('lock_wait', None), ('idle_target', None)],
            'thorough': [('await_pos', None), ('nest', 15000), ('firstuse', None), ('fwd', 3000), ('life', None), ('hist_rand', 2000), ('timeout', None), ('timeout_rand', 3000), ('lock_wait', None), ('idle_target', None)]},
    'C06': {'quick': [('firstuse', None), ('nest', 500), ('idle_par', None), ('errors_par', None), ('await_pos', 192), ('fwd3', 150), ('life', 150), ('lock_wait', None), ('cancel_cleanup', None), ('gather_await', 96), ('par_held', None)],
            'thorough': [('firstuse', None), ('nest', 15000), ('par_held', None), ('gather_await', None), ('idle_par', None), ('errors_par', None), ('await_pos', None), ('fwd3', None), ('fwd', 3000), ('life', None), ('timeout_rand', 2000), ('lock_wait', None), ('cancel_cleanup', None)]},
    'C07': {'quick': [('fwd3', None), ('fwd_deep', None), ('fwd', 300)],
            'thorough': [('fwd3', None), ('fwd_deep', None), ('fwd', 12000)]},
    'C08': {'quick': [('fwd3', 768), ('fwd', 300), ('nest', 300), ('errors', 100), ('timeout', 300), ('timeout_rand', 200), ('par_timeout', None), ('fwd_timeout', 400), ('hist', 150), ('hist_rand', 150), ('redispatch_evict', None)],
            'thorough': [('fwd3', None), ('fwd', 8000), ('nest', 6000), ('errors', None), ('timeout', None), ('timeout_rand', 4000), ('par_timeout', None), ('timeout_par_rand', 3000), ('fwd_timeout', 4000), ('hist', None), ('hist_rand', 3000), ('redispatch_evict', None)]},
    'C09': {'quick': [('nest', 500), ('fwd3', 500), ('fwd', 300), ('firstuse', None), ('errors', 100), ('redispatch', None)],
            'thorough': [('nest', 12000), ('fwd3', None), ('fwd', 6000), ('firstuse', None), ('errors', None), ('await_pos', None), ('redispatch', None)]},
    'C10': {'quick': [('timeout', None), ('deep_timeout', None), ('timeout_rand', 400), ('par_timeout', None), ('timeout_par_rand', 200), ('timeout_stray', None), ('cancel_cleanup', None), ('fwd_timeout', 200), ('retry_handler', None)],
            'thorough': [('timeout', None), ('deep_timeout', None), ('timeout_rand', 5000), ('par_timeout', None), ('timeout_par_rand', 3000), ('timeout_stray', None), ('cancel_cleanup', None), ('fwd_timeout', 1500), ('retry_handler', None)]},
    'C11': {'quick': [('errors', None), ('errors_par', None), ('nest', 300)],
            'thorough': [('errors', None), ('errors_par', None), ('nest', 10000), ('timeout_rand', 2000)]},
    'C13': {'quick': [('hist', None), ('hist_rand', 400), ('capacity', 24), ('hist_fwd', None), ('hist_nohandler', None)],
            'thorough': [('hist', None), ('hist_rand', 10000), ('capacity', None), ('hist_fwd', None), ('hist_nohandler', None)]},
    'C14': {'quick': [('capacity', None), ('retry_dispatch', None), ('hist', 200), ('life', 200), ('capacity_fwd', None)],
            'thorough': [('capacity', None), ('retry_dispatch', None), ('hist', None), ('hist_rand', 4000), ('life', None), ('life_rand', 3000), ('capacity_fwd', None)]},
    'C15': {'quick': [('life', None), ('idle_par', None), ('life_rand', 400), ('fwd', 200), ('timeout', 100), ('par_timeout', 72), ('idle_evict', None), ('fwd_idle', 300), ('idle_forward_lock', None)],
            'thorough': [('life', None), ('idle_par', None), ('life_rand', 10000), ('fwd', 3000), ('timeout', None), ('nest', 4000), ('hist_rand', 2000), ('par_timeout', None), ('timeout_par_rand', 2000), ('idle_evict', None), ('fwd_idle', 4000), ('idle_forward_lock', None)]},
    'C16': {'quick': [('life', None), ('life_rand', 400), ('stop_in_handler', None), ('stop_clear', None), ('cancel_cleanup', None)],
            'thorough': [('life', None), ('life_rand', 15000), ('stop_in_handler', None), ('stop_clear', None), ('cancel_cleanup', None)]},
    'C17': {'quick': [('wal', 1200)],
            'thorough': [('wal', 20000)]},
    'C18': {'quick': [('expect', 800)],
            'thorough': [('expect', 15000)]},
}

# which witness clauses belong to which property (prefix match), optionally only for scenarios of some families
OWN = {p: [(p + '.', None)] for p in PROPS}
OWN['C11'] += [('C01.missing', ('errors', 'errors_par')), ('C03.', ('errors', 'errors_par')), ('C10.child_pending', ('errors', 'errors_par'))]
OWN['C13'] += [('C01.', ('hist', 'hist_rand', 'capacity')), ('C03.', ('hist', 'hist_rand', 'capacity'))]
OWN['C14'] += [('C03.', ('capacity', 'retry_dispatch', 'capacity_fwd')), ('C01.missing', ('capacity', 'retry_dispatch', 'capacity_fwd'))]
_TMO = ('timeout', 'timeout_rand', 'deep_timeout', 'par_timeout', 'timeout_par_rand', 'timeout_stray', 'cancel_cleanup', 'fwd_timeout', 'retry_handler')
OWN['C10'] += [('C01.missing', _TMO), ('C15.hang', _TMO), ('C08.result_changed', _TMO), ('C03.', ('par_timeout', 'timeout_par_rand', 'timeout_stray'))]
OWN['C17'] += [('C01.', ('wal',)), ('C03.', ('wal',)), ('X.wal', ('wal',))]
_FWD = ('fwd', 'fwd3', 'fwd_deep')
# "forwarding terminates ... the results of all buses' handlers accumulate on it": in the forwarding families a forwarded event that never
# completes, an awaiter that hangs on it or a bus that never goes idle again is a failure of forwarding
OWN['C07'] += [('C01.missing', ('fwd_deep',)), ('Q.no_quiescence', ('fwd', 'fwd3')), ('C15.hang', _FWD), ('C03.hang', _FWD), ('C03.not_completed', _FWD)]
GENERIC = ('Q.', 'X.')

# the monitor's counters that show a property's clauses were actually exercised (vacuity guard)
GROUPS = {'C01': ['enter', 'end'], 'C02': ['enter'], 'C03': ['xawE'], 'C04': ['awE'], 'C05': ['nested_enter'], 'C06': ['nested_enter'],
          'C07': ['fwd'], 'C08': ['complete'], 'C09': ['disp', 'enter'], 'C10': ['timeout'], 'C11': ['raise'], 'C13': ['evict'],
          'C14': ['rej'], 'C15': ['idleE'], 'C17': ['wal'], 'C16': ['stopE'], 'C18': ['expE']}


def load_known():
    k = json.load(open(os.path.join(VERIF, 'known_findings.json')))
    return {f['id']: f for f in k['findings']}


def owned(prop, clause, fam):
    for pref, fams in OWN[prop]:
        if clause.startswith(pref) and (fams is None or fam in fams):
            return True
    return False


# spec -> code: simulated behaviours of the model replayed on the code (module, simulation cfg)
SIM = {'C01': ('MC_core.tla', 'SIM_core.cfg'), 'C02': ('MC_core.tla', 'SIM_g1.cfg'), 'C03': ('MC_core.tla', 'SIM_core.cfg'), 'C04': ('MC_core.tla', 'SIM_core.cfg'),
       'C05': ('MC_core.tla', 'SIM_core.cfg'), 'C06': ('MC_core.tla', 'SIM_core.cfg'), 'C09': ('MC_core.tla', 'SIM_core.cfg'),
       'C07': ('MC_fwd.tla', 'SIM_fwd.cfg'), 'C08': ('MC_fwd.tla', 'SIM_fwd.cfg'), 'C11': ('MC_core.tla', 'SIM_err.cfg'),
       'C13': ('MC_hist.tla', 'SIM_hist.cfg'), 'C14': ('MC_hist.tla', 'SIM_hist.cfg'), 'C15': ('MC_core.tla', 'SIM_idle.cfg')}
# further simulation configs whose behaviours are replayed on the code for a property (run-time registration, stop from drivers and handlers)
SIM['C16'] = ('MC_core.tla', 'SIM_stop.cfg')
SIM_EXTRA = {'C01': [('MC_late.tla', 'SIM_late.cfg')]}
_REPLAY = {}


def build_scenarios(prop, tier, seed):
    out = []
    if prop in SIM:
        from harness import replay
        sims = [SIM[prop]] + SIM_EXTRA.get(prop, [])
        k = 0
        for module, cfg in sims:
            behs = replay.simulate(module, cfg, num=(25 if tier == 'quick' else 400) // (1 if len(sims) == 1 else 2) + 1, seed=seed + 1)
            for b in behs:
                out.append(('replay/%d' % k, replay.to_scenario(b)))
                _REPLAY['replay/%d' % k] = b
                k += 1
    for fam, count in PLAN[prop][tier]:
        kind = families.FAMILIES[fam][0]
        ss = families.generate(fam, seed, count) if kind == 'rand' else families.generate(fam, seed, count)
        for i, s in enumerate(ss):
            out.append(('%s/%d' % (fam, i), s))
    seen, uniq = set(), []
    for sid, s in out:
        h = runner.scn_hash(s)
        if h not in seen:
            seen.add(h)
            uniq.append((sid, s))
    out = uniq
    known = load_known()
    for fid, f in sorted(known.items()):
        if prop in f['properties']:
            doc = json.load(open(os.path.join(VERIF, f['replay'])))
            out.append(('pinned/%s' % fid, doc['scenario']))
    return out


def write_replay(prop, sid, trace, wits):
    d = os.path.join(VERIF, 'replays', 'out')
    os.makedirs(d, exist_ok=True)
    scn = {k: v for k, v in trace['scn'].items()}
    h = hashlib.sha1(json.dumps(scn, sort_keys=True, default=str).encode()).hexdigest()[:10]
    path = os.path.join(d, '%s-%s.json' % (prop, h))
    json.dump({'property': prop, 'sid': sid, 'witnesses': wits, 'scenario': scn}, open(path, 'w'), indent=1, default=str)
    return path


def check_property(prop, tier, seed, extra_parts=None):
    t0 = time.time()
    if prop not in PLAN:
        from harness import seqcheck
        return seqcheck.check(prop, tier, seed)
    known = load_known()
    scns = build_scenarios(prop, tier, seed)
    res = runner.explore(scns)
    if res['harness_failures']:
        sid, tr = res['harness_failures'][0]
        print('MACHINERY-FAILURE harness exception in %s: %s\n%s' % (sid, tr['abort'], tr.get('tb', '')))
        return 2
    missing = set()
    for sid, tr in res['traces'].items():
        missing.update(tr.get('probe_missing') or [])
    if missing:
        print('MACHINERY-FAILURE probes missing: %s' % sorted(missing))
        return 2
    viol = collections.OrderedDict()  # sid -> witnesses
    kf_seen = collections.Counter()
    clause_counts = collections.Counter()
    other = collections.Counter()
    groups = collections.Counter()
    nontrivial = set()
    for sid, rep in sorted(res['reports'].items()):
        fam = sid.split('/')[0]
        if fam == 'pinned':
            fam = json.load(open(os.path.join(VERIF, 'replays', sid.split('/')[1] + '.json')))['from'].split('/')[0]
        for g, n in rep['cnt'].items():
            groups[g] += n
        if all(rep['cnt'].get(g, 0) > 0 for g in GROUPS.get(prop, [])):
            nontrivial.add(runner.scn_hash(res['traces'][sid]['scn']))
        for w in rep['wit']:
            mine = owned(prop, w['c'], fam) or w['c'].startswith(GENERIC)
            if not mine:
                other[w['c']] += 1
                continue
            clause_counts[w['c']] += 1
            native = w['c'].split('.')[0]   # a clause borrowed from another property keeps that property's recorded findings
            if w['kf'] and w['kf'] in known and (prop in known[w['kf']]['properties'] or native in known[w['kf']]['properties']):
                kf_seen[w['kf']] += 1
            else:
                viol.setdefault(sid, []).append(w)
    # conformance: the recorded traces of the scenarios the detailed model covers are replayed through Bubus.tla's own actions
    conf = None
    maxlines = 160 if tier == 'quick' else 600
    elig = [(sid, tr) for sid, tr in sorted(res['traces'].items()) if not tr.get('abort') and len(tr['lines']) <= maxlines and tlc.impl_eligible(tr['scn']) and tlc.impl_trace_ok(tr)]
    limit = 400 if tier == 'quick' else 4000
    if elig:
        step = max(1, len(elig) // limit)
        sample = elig[::step][:limit]
        t1 = time.time()
        acc, rej, st = tlc.validate_impl(sample)
        conf = {'eligible': len(elig), 'validated': len(sample), 'accepted': len(acc), 'rejected': len(rej), 'states': st,
                'wall_s': round(time.time() - t1, 1),
                'rejected_examples': [{'sid': sid, 'line': ln, 'logged': {k: v for k, v in line.items() if k != 's'}} for sid, (ln, line) in list(rej.items())[:5]]}
        for sid, (ln, line) in list(rej.items())[:5]:
            print('MODEL-DRIFT %s line %d: the detailed model (spec/Bubus.tla) has no action explaining %s' % (
                sid, ln, json.dumps({k: v for k, v in line.items() if k != 's'})[:200]))
        if rej:
            print('MODEL-DRIFT total: %d of %d traces rejected by TraceImpl (not a verdict: properties are decided by TraceObs on the same traces)' % (len(rej), len(sample)))
    # model-level part (exhaustive TLC on the design model), if built for this property
    model = None
    try:
        from harness import modelcheck
        model = modelcheck.run_for(prop, tier, seed)
    except ImportError:
        model = None
    rc = 0
    vac = [g for g in GROUPS.get(prop, []) if groups.get(g, 0) == 0]
    if vac:
        print('MACHINERY-FAILURE vacuous run: no trace exercised %s' % vac)
        rc = 2
    for fid, n in sorted(kf_seen.items()):
        print('KNOWN-FINDING: property=%s %s: %s [%d witnesses in %d executions; replay %s]' % (
            prop, fid, known[fid]['what'], n, len(scns), known[fid]['replay']))
    for fid, f in sorted(known.items()):
        if prop in f['properties'] and fid not in kf_seen:
            print('NOTE: recorded finding %s for %s was not observed in this run (fixed, or its pinned replay no longer triggers it)' % (fid, prop))
    replay_paths = []
    for sid, ws in list(viol.items())[:20]:
        path = write_replay(prop, sid, res['traces'][sid], ws)
        replay_paths.append(path)
        print('VIOLATION property=%s replay=%s' % (prop, path))
        print('  witnesses: %s' % json.dumps(ws[:4]))
        rc = max(rc, 1) if rc != 2 else 2
    if model is not None:
        for line in model.get('messages', []):
            print(line)
        if model.get('violation'):
            rc = 1 if rc != 2 else 2
        if model.get('machinery_failure'):
            rc = 2
    # evidence
    sample_sids = [s for s in list(res['reports'])[:2]]
    samples = []
    for sid in sample_sids:
        tr = res['traces'][sid]
        samples.append({'sid': sid, 'scenario': {k: v for k, v in tr['scn'].items() if k != 'tag'},
                        'trace_head': [{k: v for k, v in l.items() if k not in ('evs', 'hist', 'q', 'reg', 'xs')} for l in tr['lines'][:12]],
                        'witnesses': res['reports'][sid]['wit'][:5]})
    cov = {
        'states': max(1, res['states'] + (model or {}).get('states', 0)),
        'transitions': max(1, res['lines'] + (model or {}).get('transitions', 0)),
        'traces_validated_against_impl': len(res['reports']),
        'samples': samples,
        'evaluations': len(scns),
        'distinct_nontrivial': len(nontrivial),
        'rule': 'scenario families %s executed on /repo under the virtual-time loop, every recorded trace replayed through spec/TraceObs.tla (monitor of '
                'spec/BubusProps.tla) by TLC; a case is distinct by the hash of its scenario document and non-trivial when its trace exercised the '
                'monitor groups %s of this property' % ([f for f, _ in PLAN[prop][tier]], GROUPS.get(prop, [])),
        'trace_lines': res['lines'],
        'trace_states_tlc': res['states'],
        'monitor_group_counts': dict(groups),
        'clause_witnesses': dict(clause_counts),
        'known_findings_observed': dict(kf_seen),
        'other_property_witnesses': dict(other),
        'aborts': dict(collections.Counter(str(tr.get('abort')) for tr in res['traces'].values())),
        'exhaustive': False,
        't_exec_s': round(res['t_exec'], 2), 't_tlc_s': round(res['t_tlc'], 2),
    }
    if model is not None:
        cov['model'] = {k: v for k, v in model.items() if k not in ('messages',)}
    if conf is not None:
        cov['conformance_TraceImpl'] = conf
        cov['states'] += conf['states']
    if _REPLAY:
        from harness import replay
        foll = rep = 0
        for sid, b in _REPLAY.items():
            tr = res['traces'].get(sid)
            if tr is None:
                continue
            foll += replay.shape(b['log']) == replay.shape(tr['lines'])
            mw = {(w['c'], w['kf']) for w in (b['wit'] if isinstance(b['wit'], list) else [])}
            cw = {(w['c'], w['kf']) for w in res['reports'].get(sid, {'wit': []})['wit']}
            rep += mw <= cw
        cov['spec_to_code_replay'] = {'behaviours_simulated_by_TLC': len(_REPLAY), 'followed_line_for_line': foll, 'model_witnesses_reproduced_on_code': rep,
                                      'note': 'every replayed execution is also validated by TraceObs (verdicts) and TraceImpl (conformance) above'}
    ev = {
        'property_id': prop, 'tier': tier, 'seed': seed, 'level': 'model_checking', 'coverage': cov,
        'assumptions': [
            'CPython 3.12 asyncio semantics; single event loop; virtual clock (sleeps and timeouts take exactly their scripted durations)',
            'scenario handlers are the puppets of harness/engine.py; observation of public API state is faithful (harness/engine.py snap_event)',
            'TLC evaluates spec/BubusProps.tla clauses correctly on each recorded line',
        ],
        'wall_s': round(time.time() - t0, 2), 'violations': len(viol) + (1 if (model or {}).get('violation') else 0),
    }
    if not os.environ.get('VERIF_NO_EVIDENCE'):
        os.makedirs(os.path.join(VERIF, 'evidence'), exist_ok=True)
        json.dump(ev, open(os.path.join(VERIF, 'evidence', prop + '.json'), 'w'), indent=1, default=str)
    print('%s %s: %d executions, %d trace lines validated by TLC, %d distinct non-trivial, %d unexplained witnesses, wall %.1fs' % (
        prop, tier, len(scns), res['lines'], len(nontrivial), sum(len(v) for v in viol.values()), time.time() - t0))
    return rc


def replay(path):
    from harness import engine, probes
    doc = json.load(open(path))
    scn = doc['scenario']
    tr = engine.execute(scn, probes)
    for l in tr['lines']:
        d = {k: v for k, v in l.items() if k not in ('hist', 'q', 'reg', 'evs', 'x')}
        ev = ';'.join('%d:%s%s[%s]' % (r['e'], r['st'][:4], '*' if r['sig'] else '',
                                       ','.join(x['h'] + '=' + x['st'][:4] + ('!' + x['err'] if x['err'] else '') for x in r['res'])) for r in l['evs'])
        print(json.dumps(d), ev)
    rep, _ = tlc.validate_obs([('replay', tr)], jobs=1)
    known = load_known()
    prop = doc.get('property')
    rc = 0
    for w in rep['replay']['wit']:
        ok = w['kf'] and w['kf'] in known
        print(('KNOWN-FINDING ' if ok else 'WITNESS ') + json.dumps(w))
        if not ok and (prop is None or w['c'].startswith(prop) or w['c'].startswith(GENERIC)):
            rc = 1
    return rc


def main(argv=None):
    argv = argv if argv is not None else sys.argv[1:]
    if argv and argv[0] == 'replay':
        return replay(argv[1])
    if argv and argv[0] == 'selftest':
        from harness import selftest
        return selftest.main(argv[1:])
    ap = argparse.ArgumentParser()
    ap.add_argument('prop')
    ap.add_argument('--tier', default=os.environ.get('VERIF_TIER', 'quick'))
    ap.add_argument('--seed', type=int, default=int(os.environ.get('VERIF_SEED', '0')))
    a = ap.parse_args(argv)
    try:
        return check_property(a.prop, a.tier, a.seed)
    except tlc.TLCError as ex:
        print('MACHINERY-FAILURE %s' % ex)
        return 2


if __name__ == '__main__':
    sys.exit(main())
