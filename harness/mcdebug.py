"""python -m harness.mcdebug MC_x.tla MC_x.cfg : run TLC, and on an invariant violation print the sequence of observation lines of the
counterexample, the unexplained witnesses and the non-idle tasks of its last state (TLC's raw dump is thousands of lines)."""
import re
import subprocess
import sys

from harness import tlc


def main(module, cfg, workers='8'):
    out, rc, wall = tlc.run_tlc(module, cfg, workers=int(workers), timeout=3600, heap='8g')
    m = re.search(r'Invariant (\w+) is violated', out)
    print('rc', rc, 'violated', m.group(1) if m else None, 'states', tlc.stats(out), '%.0fs' % wall)
    states = re.split(r'\nState \d+: ', out)
    if len(states) < 2:
        print('\n'.join(out.splitlines()[-15:]))
        return
    prev = None
    for st in states[1:]:
        mm = re.search(r'lastln \|->\s*\[(.*?)\]', st, re.S)
        if mm:
            x = re.sub(r'\s+', ' ', mm.group(1))[:220]
            if x != prev:
                print('  ', x)
            prev = x
    last = states[-1]
    mm = re.search(r'wit \|-> (\{.*?\}),\s*\n?\s*open', last, re.S)
    print('wit', re.sub(r'\s+', ' ', mm.group(1))[:1500] if mm else None)
    i = last.find('/\\ task =')
    blk = last[i:]
    for t in re.finditer(r'<<"(\w+)", ("?\w+"?)>> :>\s*\[(.*?)\]\s*(?:@@|\))', blk, re.S):
        body = t.group(3)
        pc = re.search(r'pc \|-> "(\w+)"', body)
        if pc and pc.group(1) not in ('none', 'done', 'free', 'dead'):
            def f(k):
                x = re.search(r'\b' + k + r' \|-> ([^\n]+?),?\n', body + '\n')
                return x.group(1) if x else '?'
            print('  task', t.group(1), t.group(2), {k: f(k) for k in ('pc', 'fe', 'fa', 'canc', 'tout', 'owner', 'e', 'aw', 'out')})
    i = last.find('/\\ ev =')
    print(re.sub(r'\s+', ' ', last[i:i + 1800]))


if __name__ == '__main__':
    main(*sys.argv[1:])
