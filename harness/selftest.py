"""bin/check selftest: binding and vacuity self-tests (DESIGN.md 5.7).

 1. conformance binds: recorded traces of the real code are ACCEPTED by TraceImpl, and each of three corruptions of a trace
    (one logged state field changed, one line dropped, two lines swapped) is REJECTED;
 2. the property monitor binds: tampering a trace (a handler entry duplicated, a parent pointer changed, a result flipped after
    completion, a WAL line dropped) produces the corresponding witness in TraceObs;
 3. every recorded finding's pinned replay still produces its witness with the recorded classification.
Exit 0 if all hold, 2 otherwise (this is a test of the machinery, not of bubus).
"""
import copy
import json
import os
import sys

VERIF = os.path.dirname(os.path.dirname(os.path.abspath(__file__)))
from harness import families, runner, tlc  # noqa: E402


def main(argv):
    fails = []
    scns = [('st/%d' % i, s) for i, s in enumerate(families.generate('await_pos', 0, None)[:40:2])]
    traces = runner.execute_all(scns)
    acc, rej, _ = tlc.validate_impl(traces)
    print('selftest 1a: %d/%d recorded traces accepted by TraceImpl' % (len(acc), len(traces)))
    if rej:
        fails.append('TraceImpl rejects unmodified traces: %s' % list(rej)[:3])
    # corruptions
    corrupted = []
    for k, (sid, tr) in enumerate(traces[:12]):
        t = copy.deepcopy(tr)
        L = t['lines']
        kind = k % 3
        if kind == 0:      # change one logged state field: pretend a queue still holds an event
            i = next(j for j, l in enumerate(L) if l['a'] == 'ProcB')
            L[i]['q'] = [[b['name'], [99]] for b in t['scn']['buses']][:1]
        elif kind == 1:    # drop one line
            i = next(j for j, l in enumerate(L) if l['a'] == 'HEnter')
            # keep the state diffs of the dropped line so that only the action is missing
            L[i + 1]['evs'] = L[i]['evs'] + L[i + 1]['evs']
            del L[i]
        else:              # swap two adjacent lines
            i = next(j for j, l in enumerate(L) if l['a'] == 'HExit')
            L[i], L[i + 1] = L[i + 1], L[i]
        corrupted.append(('corrupt%d/%s' % (kind, sid), t))
    acc2, rej2, _ = tlc.validate_impl(corrupted)
    print('selftest 1b: %d/%d corrupted traces rejected by TraceImpl' % (len(rej2), len(corrupted)))
    if acc2:
        fails.append('TraceImpl accepts corrupted traces: %s' % sorted(acc2)[:5])
    # 2. monitor tampering
    base = dict(traces)
    tampered = []
    sid, tr = traces[3]
    t = copy.deepcopy(tr)
    i = next(j for j, l in enumerate(t['lines']) if l['a'] == 'HEnter')
    dup = copy.deepcopy(t['lines'][i])
    dup['act'] = 99
    dup['evs'] = []
    t['lines'].insert(i + 1, dup)
    tampered.append(('dup_enter', t, 'C01.twice'))
    t = copy.deepcopy(tr)
    for l in t['lines']:
        for r in l['evs']:
            if r['e'] == 2:
                r['par'] = 2
    tampered.append(('self_parent', t, 'C09.self_parent'))
    t = copy.deepcopy(tr)
    last = [l for l in t['lines'] if l['evs']][-1]
    flip = copy.deepcopy([r for r in last['evs'] if r['st'] == 'completed' and r['sig'] and r['res']][0])
    flip['res'][0]['st'] = 'error'
    flip['res'][0]['err'] = 'Cancelled'
    t['lines'][-1]['evs'] = [flip]
    tampered.append(('flip_after_completion', t, 'C08.result_changed'))
    reports, _ = tlc.validate_obs([(n, x) for n, x, _ in tampered], jobs=2)
    for n, x, want in tampered:
        got = {w['c'] for w in reports[n]['wit']}
        ok = want in got
        print('selftest 2 %-22s expects %-20s -> %s' % (n, want, 'ok' if ok else 'MISSING (got %s)' % sorted(got)))
        if not ok:
            fails.append('monitor misses %s' % want)
    # 3. pinned replays
    known = json.load(open(os.path.join(VERIF, 'known_findings.json')))['findings']
    pins = []
    for f in known:
        doc = json.load(open(os.path.join(VERIF, f['replay'])))
        pins.append((f['id'], doc['scenario'], doc['expect']))
    ptr = runner.execute_all([(fid, s) for fid, s, _ in pins])
    prep, _ = tlc.validate_obs(ptr, jobs=4)
    for fid, s, expect in pins:
        got = {(w['c'], w['kf']) for w in prep[fid]['wit']}
        ok = any(kf == fid for c, kf in got)
        print('selftest 3 pinned %-4s -> %s' % (fid, 'reproduced' if ok else 'NOT reproduced (got %s)' % sorted(got)))
        if not ok:
            fails.append('pinned replay %s does not reproduce' % fid)
    if fails:
        print('SELFTEST FAILED:\n  ' + '\n  '.join(fails))
        return 2
    print('SELFTEST OK')
    return 0
