"""Scenario families (DESIGN.md 5.3): generators of scenario documents, per property family.

Scenario document
-----------------
  buses    : [{name, parallel?, maxhist?, wal?}]
  handlers : [{id, bus, pat ('*' or an event type), kind: async|sync|fwd, to?: bus (fwd), script?: name}]   (registration order)
  scripts  : {name: {event type | '*': [op, ...]}}
  events   : {type: {timeout?: ms, rtype?: ..., payload?: {...}}}
  drivers  : [[op, ...], ...]       external tasks
  horizon  : ms (virtual)
Handler ops : ['d', bus, type, opts?] dispatch a new event (kid index = order) | ['rd', bus] dispatch own event again |
              ['a', k] await kid k | ['y', n?] yield n loop iterations | ['s', ms] sleep | ['rb'] read event.event_bus |
              ['raise', kind?] | ['ret', valuekind] | ['g', n] gate on trace length (spec->code replay)
Driver ops  : ['d', bus, type, opts?, payload?] | ['rd', bus, k] | ['a', k] | ['y', n?] | ['s', ms] | ['idle', bus, tmo?] |
              ['stop', bus, tmo?, clear?] | ['crl', bus] | ['expect', bus, type, inc, exc, tmo, use_predicate?] |
              ['cancel', driver] | ['acc', k, accessor, flags]

Every generator is deterministic in its arguments; systematic ones ignore the seed.
Families control handler identity along dispatch chains deliberately (three event levels at most under a
shared wildcard handler) so that the recursion guard (finding F2) is only hit by the family meant to hit it.
"""
import itertools
import json
import random


def bus(name, **kw):
    d = {'name': name}
    d.update(kw)
    return d


def scn(buses, handlers, scripts, drivers, events=None, horizon=20000, tag=''):
    return {'buses': buses, 'handlers': handlers, 'scripts': scripts, 'events': events or {}, 'drivers': drivers,
            'horizon': horizon, 'tag': tag}


def wild(b, script=None, kind='async', hid=None):
    return {'id': hid or ('w_' + b), 'bus': b, 'pat': '*', 'kind': kind, 'script': script or ('S_' + b)}


def typed(b, ty, script, kind='async', hid=None):
    return {'id': hid or ('t_%s_%s' % (b, ty)), 'bus': b, 'pat': ty, 'kind': kind, 'script': script}


def fwd(src, dst, pat='*'):
    return {'id': 'f_%s_%s' % (src, dst) + ('' if pat == '*' else '_' + pat), 'bus': src, 'pat': pat, 'kind': 'fwd', 'to': dst}


# ---------------------------------------------------------------------------------------------
# nest: event trees over 1-3 buses (C01-C06, C09, C11; findings F0, F1, G1 appear here on their own)
# ---------------------------------------------------------------------------------------------
def _rand_script(rng, level, buses, types_by_level, sync, errors=True, sleeps=(1, 3, 5), allow_await=True):
    ops = []
    kids = 0
    n = rng.randint(0, 4 if level < 2 else 2)
    for _ in range(n):
        r = rng.random()
        if level < 2 and r < 0.45 and kids < 2:
            ops.append(['d', rng.choice(buses), rng.choice(types_by_level[level + 1])])
            kids += 1
        elif sync:
            if r < 0.6:
                ops.append(['rb'])
        elif r < 0.60:
            ops.append(['y', rng.randint(1, 3)])
        elif r < 0.72:
            ops.append(['s', rng.choice(sleeps)])
        elif r < 0.92 and kids and allow_await:
            ops.append(['a', rng.randrange(kids)])
        else:
            ops.append(['rb'])
    if errors and rng.random() < 0.12:
        ops.append(['raise'] if rng.random() < 0.7 else ['ret', 'exc'])
    elif rng.random() < 0.2:
        ops.append(['ret', rng.choice(['i1', 's1', 'd1', 'none'])])
    return ops


def gen_nest(seed, nb=None, parallel_p=0.15, errors=True, maxhist=None, backlog=True):
    rng = random.Random(seed)
    nb = nb or rng.choice([1, 2, 2, 2, 3])
    names = ['b%d' % (i + 1) for i in range(nb)]
    buses = [bus(n, parallel=rng.random() < parallel_p, maxhist=maxhist) for n in names]
    types_by_level = {0: ['R1', 'R2'], 1: ['C1', 'C2'], 2: ['G1']}
    handlers, scripts = [], {}
    for b in names:
        # one wildcard puppet per bus (so every processed event has a handler entry), plus sometimes a typed one
        sync_w = rng.random() < 0.15
        sname = 'S_' + b
        scripts[sname] = {}
        for lvl, tys in types_by_level.items():
            for ty in tys:
                scripts[sname][ty] = _rand_script(rng, lvl, names, types_by_level, sync_w, errors)
        hs = [wild(b, sname, 'sync' if sync_w else 'async')]
        if rng.random() < 0.4:
            ty = rng.choice(['R1', 'C1', 'C2', 'G1'])
            lvl = {'R': 0, 'C': 1, 'G': 2}[ty[0]]
            sync_t = rng.random() < 0.3
            tn = 'T_%s_%s' % (b, ty)
            scripts[tn] = {ty: _rand_script(rng, lvl, names, types_by_level, sync_t, errors)}
            th = typed(b, ty, tn, 'sync' if sync_t else 'async')
            if rng.random() < 0.5:
                hs.insert(0, th)
            else:
                hs.append(th)
        handlers.extend(hs)
    drivers = []
    nd = rng.choice([1, 1, 2])
    for _ in range(nd):
        ops = []
        nroots = rng.randint(1, 3)
        for k in range(nroots):
            if rng.random() < 0.5:
                ops.append(['y', rng.randint(1, 4)])
            elif rng.random() < 0.3:
                ops.append(['s', rng.choice([1, 2, 4])])
            ops.append(['d', rng.choice(names), rng.choice(types_by_level[0] + (['C1'] if backlog else []))])
        waits = list(range(nroots))
        rng.shuffle(waits)
        for k in waits[:rng.randint(0, nroots)]:
            ops.append(['a', k])
        if rng.random() < 0.7:
            for b in names:
                ops.append(['idle', b])
        drivers.append(ops)
    return scn(buses, handlers, scripts, drivers, tag='nest')


def sys_await_positions():
    """Systematic sweep around the in-handler await (C04/C05/C02): where the child goes, how long the parent yields before
    awaiting, how much unrelated backlog sits on each bus, how long the child's handler takes, whether a grandchild exists."""
    out = []
    for target, ny, back1, back2, csleep, grand, await_it in itertools.product(
            ['b1', 'b2'], [0, 1, 2, 3], [0, 1, 2], [0, 1], [0, 3], [False, True], [True, False]):
        root_ops = [['d', target, 'C']]
        if ny:
            root_ops.append(['y', ny])
        if await_it:
            root_ops.append(['a', 0])
        c_ops = []
        if csleep:
            c_ops.append(['s', csleep])
        if grand:
            c_ops += [['d', 'b1' if target == 'b2' else 'b2', 'G'], ['a', 0]]
        scripts = {'S_b1': {'R': root_ops, 'C': c_ops, 'U': [], 'G': []}, 'S_b2': {'C': c_ops, 'U': [], 'G': [], 'R': []}}
        d = [['d', 'b1', 'R']] + [['d', 'b1', 'U']] * back1 + [['d', 'b2', 'U']] * back2 + [['a', 0], ['idle', 'b1'], ['idle', 'b2']]
        out.append(scn([bus('b1'), bus('b2')], [wild('b1'), wild('b2')], scripts, [d], tag='await_pos'))
    return out


# ---------------------------------------------------------------------------------------------
# fwd: forwarding topologies (C07, C08, C09; finding F4)
# ---------------------------------------------------------------------------------------------
def fwd_graph_scn(names, edges, entry, slow=False, await_first=True, second=None, nested=False, mid_await=False):
    handlers, scripts = [], {}
    for b in names:
        ops = [['s', 2]] if slow else []
        if nested and b == names[-1]:
            ops = [['d', names[0], 'K'], ['a', 0]]
        scripts['S_' + b] = {'E': ops + [['rb']], 'K': [], 'E2': [['rb']]}
    # registration order per bus: puppet first or forwards first alternates with the bus index
    for i, b in enumerate(names):
        f = []
        for (s_, d_) in edges:
            if s_ == b:
                h = fwd(s_, d_)
                if any(x['id'] == h['id'] for x in f):
                    h['id'] += '_dup%d' % len(f)
                f.append(h)
        if mid_await and len(f) >= 2:
            # the scenario handler sits between two forwards and awaits a child: the inline drain may carry the event on meanwhile
            k = 'S_' + b
            scripts[k] = dict(scripts[k], E=[['d', names[(i + 1) % len(names)], 'K'], ['a', 0]] + scripts[k]['E'])
            handlers += f[:1] + [wild(b)] + f[1:]
        elif i % 2 == 0:
            handlers += [wild(b)] + f
        else:
            handlers += f + [wild(b)]
    d = [['d', entry, 'E']]
    if second:
        d.append(['d', second, 'E2'])
    if await_first:
        d.append(['a', 0])
    d += [['idle', b] for b in names] + [['idle', b] for b in names]
    return scn([bus(b) for b in names], handlers, scripts, [d], tag='fwd')


def sys_fwd3():
    names = ['b1', 'b2', 'b3']
    pairs = [(s, d) for s in names for d in names]
    out = []
    for mask in range(512):
        edges = [pairs[i] for i in range(9) if mask >> i & 1]
        for entry in names:
            out.append(fwd_graph_scn(names, edges, entry, slow=(mask + names.index(entry)) % 2 == 1, await_first=mask % 3 != 0))
    return out


def gen_fwd(seed):
    rng = random.Random(seed)
    n = rng.choice([2, 3, 4, 4])
    names = ['b%d' % (i + 1) for i in range(n)]
    pairs = [(s, d) for s in names for d in names]
    edges = [p for p in pairs if rng.random() < (0.35 if n < 4 else 0.22)]
    if rng.random() < 0.3 and edges:   # several forwards to the same bus (registered twice)
        edges = edges + [rng.choice(edges)]
        rng.shuffle(edges)
    entry = rng.choice(names)
    s = fwd_graph_scn(names, edges, entry, slow=rng.random() < 0.5, await_first=rng.random() < 0.7,
                      second=rng.choice(names) if rng.random() < 0.4 else None, nested=rng.random() < 0.3, mid_await=rng.random() < 0.4)
    if rng.random() < 0.35:
        # some forwards are registered for the event's own type instead of '*' (type-specific routing next to catch-all forwards)
        for h in s['handlers']:
            if h['kind'] == 'fwd' and rng.random() < 0.4:
                h['pat'] = 'E'
                h['id'] += '_E'
    return s


# ---------------------------------------------------------------------------------------------
# firstuse: buses first used from different places (C06; finding F6 - repaired)
# ---------------------------------------------------------------------------------------------
def sys_firstuse():
    out = []
    for nb in (2, 3):
        names = ['b%d' % (i + 1) for i in range(nb)]
        for sleep1, sleepk, awaitkid, par in itertools.product([0, 3], [0, 2, 5], [False, True], [False, True]):
            # b1's handler is the first user of every other bus
            r_ops = []
            for i, b in enumerate(names[1:]):
                r_ops.append(['d', b, 'K'])
            if sleep1:
                r_ops.append(['s', sleep1])
            if awaitkid:
                r_ops.append(['a', 0])
            r_ops.append(['s', 4])
            scripts = {'S_b1': {'R': r_ops, 'K': [['s', 1]], 'L': [['s', 2]]}}
            for b in names[1:]:
                scripts['S_' + b] = {'K': [['s', sleepk], ['y', 2]], 'L': [['s', 3]], 'R': []}
            d = [['d', 'b1', 'R'], ['s', 1], ['d', 'b1', 'L']]
            for b in names[1:]:
                d.append(['d', b, 'L'])
            d += [['a', 0]] + [['idle', b] for b in names]
            out.append(scn([bus(names[0], parallel=par)] + [bus(b) for b in names[1:]], [wild(b) for b in names], scripts, [d], tag='firstuse'))
    # first use of a bus through wait_until_idle() / expect-free paths from inside a handler, then overlapping traffic
    for nb, tmo, sleepk, par in itertools.product((2, 3), (150, 300), (2, 5), (False, True)):
        names = ['b%d' % (i + 1) for i in range(nb)]
        r_ops = [['idle', b, tmo] for b in names[1:]] + [['s', 2]]
        scripts = {'S_b1': {'R': r_ops, 'L': [['s', 3], ['y', 1]], 'M': [['s', 2]]}}
        for b in names[1:]:
            scripts['S_' + b] = {'L': [['s', sleepk], ['y', 2]], 'M': [['s', 4]], 'R': []}
        d = [['d', 'b1', 'R'], ['a', 0]]
        for rnd in ('L', 'M'):
            for b in names:
                d.append(['d', b, rnd])
        d += [['idle', b, 3000] for b in names]
        out.append(scn([bus(names[0], parallel=par)] + [bus(b) for b in names[1:]], [wild(b) for b in names], scripts, [d], horizon=8000, tag='firstuse_idle'))
    return out


# ---------------------------------------------------------------------------------------------
# recursion: the same handler along a dispatch chain (finding F2)
# ---------------------------------------------------------------------------------------------
def sys_recursion():
    out = []
    for depth in (2, 3, 4):
        for awaited in (False,):
            tys = ['L%d' % i for i in range(depth + 1)]
            sc = {}
            for i, ty in enumerate(tys):
                sc[ty] = ([['d', 'b1', tys[i + 1]]] + ([['a', 0]] if awaited else [])) if i < depth else []
            d = [['d', 'b1', tys[0]], ['a', 0], ['idle', 'b1']]
            out.append(scn([bus('b1')], [wild('b1', 'S')], {'S': sc}, [d], horizon=4000, tag='recursion%d' % depth))
    return out


# ---------------------------------------------------------------------------------------------
# timeout: handler timeouts placed at every segment (C10; F5 was found here and repaired)
# ---------------------------------------------------------------------------------------------
def timeout_scn(tmo, pre, child_sleep, grand_sleep, awaited, second_handler, later_event, target, extra=''):
    r_ops = []
    if pre:
        r_ops.append(['s', pre])
    r_ops.append(['d', target, 'C'])
    if awaited:
        r_ops.append(['a', 0])
    r_ops.append(['s', 4])
    c_ops = [['s', child_sleep]] if child_sleep else []
    if grand_sleep is not None:
        c_ops += [['d', 'b1', 'G'], ['a', 0]]
    g_ops = [['s', grand_sleep]] if grand_sleep else []
    scripts = {'S_b1': {'R': r_ops, 'C': c_ops, 'G': g_ops, 'L': []}, 'S_b2': {'C': c_ops, 'G': g_ops, 'L': [], 'R': []},
               'S2': {'R': [['s', 1]]}}
    handlers = [wild('b1'), wild('b2')]
    if second_handler == 'after':   # runs after the slow wildcard handler: still pending when that one times out
        scripts['S2'] = {'R': [['s', 1]], 'C': [], 'G': [], 'L': []}
        handlers.append(wild('b1', 'S2', hid='second_w'))
    elif second_handler:            # typed handlers run before wildcard ones
        handlers.append(typed('b1', 'R', 'S2', hid='second'))
    scripts['S3'] = {'C': [['s', 1]], 'G': [['s', 1]]}
    if 'C' in extra:   # a second (serial) handler for the child on its bus: pending while the first one runs
        handlers.append(typed(target, 'C', 'S3', hid='c_second'))
    if 'G' in extra:
        handlers.append(typed('b1', 'G', 'S3', hid='g_second'))
    d = [['d', 'b1', 'R']]
    if later_event:
        d.append(['d', 'b1', 'L'])
    d += [['a', 0], ['idle', 'b1', 3000], ['idle', 'b2', 3000]]
    return scn([bus('b1'), bus('b2')], handlers, scripts, [d], events={'R': {'timeout': tmo}}, horizon=12000, tag='timeout')


def sys_timeout():
    out = []
    for tmo, pre, cs, gs, aw, sh, le, tg in itertools.product([2, 5, 9, 50], [0, 3], [0, 4], [None, 0, 4], [True, False], [False, True, 'after'],
                                                              [False, True], ['b1', 'b2']):
        out.append(timeout_scn(tmo, pre, cs, gs, aw, sh, le, tg))
    for tmo, cs, gs, extra, tg in itertools.product([2, 3, 5, 7, 9], [0, 2, 4], [0, 2, 4], ['C', 'G', 'CG'], ['b1', 'b2']):
        out.append(timeout_scn(tmo, 0, cs, gs, True, False, False, tg, extra))
    return out


def gen_timeout(seed):
    rng = random.Random(seed)
    s = gen_nest(seed * 7 + 1, errors=rng.random() < 0.3, parallel_p=0.1)
    # give one or two event types a short timeout
    for ty in rng.sample(['R1', 'R2', 'C1', 'C2', 'G1'], rng.randint(1, 2)):
        s['events'][ty] = {'timeout': rng.choice([1, 2, 3, 4, 6, 8])}
    # bounded idles: a lost completion shows as a C15.hang witness at the bound instead of a scenario that runs to the horizon
    for ops in s['drivers']:
        for op in ops:
            if op[0] == 'idle':
                op.append(2000)
    s['tag'] = 'timeout_rand'
    return s


# ---------------------------------------------------------------------------------------------
# hist: bounded history, capacity (C13, C14; finding F11)
# ---------------------------------------------------------------------------------------------
def hist_scn(n, burst, nested, slow, awaited_root, fire):
    r_ops = [['d', 'b1', 'K'] for _ in range(nested)]
    if fire == 'await_last' and nested:
        r_ops.append(['a', nested - 1])
    if slow:
        r_ops.append(['s', slow])
    scripts = {'S_b1': {'R': r_ops, 'K': [['s', 1]] if slow else [], 'U': []}}
    d = [['d', 'b1', 'R']] + [['d', 'b1', 'U'] for _ in range(burst)]
    if awaited_root:
        d.append(['a', 0])
    d.append(['idle', 'b1', 3000])
    return scn([bus('b1', maxhist=n)], [wild('b1')], scripts, [d], horizon=8000, tag='hist')


def sys_hist():
    out = []
    for n, burst, nested, slow, aw, fire in itertools.product([1, 2, 3, 5], [0, 2, 4, 7], [0, 1, 3, 6], [0, 2], [True, False], ['ff', 'await_last']):
        out.append(hist_scn(n, burst, nested, slow, aw, fire))
    return out


def gen_hist(seed):
    rng = random.Random(seed)
    s = gen_nest(seed * 11 + 3, errors=rng.random() < 0.3, maxhist=rng.choice([1, 2, 3, 4, 6]), parallel_p=0.1)
    for ops in s['drivers']:
        for op in ops:
            if op[0] == 'idle':
                op.append(2000)
    s['tag'] = 'hist_rand'
    return s


def capacity_scn(nkids, from_handler, maxhist, slow_first):
    """real limits (queue 50, backlog 100): bursts from a handler or a driver"""
    if from_handler:
        r_ops = [['d', 'b1', 'K'] for _ in range(nkids)] + [['s', 2]]
        scripts = {'S_b1': {'R': r_ops, 'K': []}}
        d = [['d', 'b1', 'R'], ['a', 0], ['idle', 'b1', 3000]]
    else:
        scripts = {'S_b1': {'R': [['s', slow_first]] if slow_first else [], 'K': []}}
        d = [['d', 'b1', 'R']] + [['d', 'b1', 'K'] for _ in range(nkids)] + [['a', 0], ['idle', 'b1', 3000]]
    return scn([bus('b1', maxhist=maxhist)], [wild('b1')], scripts, [d], horizon=8000, tag='capacity')


def sys_capacity():
    out = []
    for nk, fh, mh, sf in itertools.product([10, 48, 49, 50, 51, 60, 99, 100, 120], [True, False], [50, 200], [0, 3]):
        if fh and (sf or mh == 50):
            continue  # sf is unused for handler bursts; with a 50-event history the bursting parent is evicted (finding F11, owned by C13)
        out.append(capacity_scn(nk, fh, mh, sf))
    return out


# ---------------------------------------------------------------------------------------------
# life: wait_until_idle / stop / cancellation racing dispatches (C15, C16; finding G2)
# ---------------------------------------------------------------------------------------------
def life_scn(kind, at_yield, hsleep, nev, tmo, second_bus_await):
    scripts = {'S_b1': {'R': ([['s', hsleep]] if hsleep else []) + [['d', 'b1', 'K']], 'K': [['y', 1]], 'L': []},
               'S_b2': {'P': [['d', 'b1', 'L'], ['y', 2], ['a', 0]], 'L': []}}
    d1 = [['d', 'b1', 'R'] for _ in range(nev)]
    if second_bus_await:
        d1.append(['d', 'b2', 'P'])
    d2 = [['y', at_yield]] if at_yield else []
    if kind == 'idle':
        d2 += [['idle', 'b1', tmo]]
    elif kind == 'stop':
        d2 += [['stop', 'b1', tmo]]
    elif kind == 'crl':
        d2 += [['crl', 'b1']]
    elif kind == 'idle_then_dispatch':
        d2 += [['idle', 'b1', tmo], ['d', 'b1', 'R'], ['idle', 'b1', tmo]]
    d3 = [['s', 1], ['d', 'b1', 'L']] if kind == 'idle' else []
    drivers = [d1, d2] + ([d3] if d3 else [])
    return scn([bus('b1'), bus('b2')], [wild('b1'), wild('b2')], scripts, drivers, horizon=10000, tag='life_' + kind)


def sys_life():
    out = []
    for kind, ay, hs, nev, tmo, sba in itertools.product(['idle', 'stop', 'crl', 'idle_then_dispatch'], range(0, 9), [0, 3], [0, 1, 3],
                                                         [None, 0, 5], [False, True]):
        if kind == 'crl' and tmo is not None:
            continue
        out.append(life_scn(kind, ay, hs, nev, tmo, sba))
    return out


def gen_life(seed):
    rng = random.Random(seed)
    s = gen_nest(seed * 13 + 5, errors=rng.random() < 0.3, parallel_p=0.1, nb=rng.choice([1, 2]))
    names = [b['name'] for b in s['buses']]
    extra = []
    for _ in range(rng.randint(1, 2)):
        ops = []
        if rng.random() < 0.8:
            ops.append(['y', rng.randint(1, 12)] if rng.random() < 0.6 else ['s', rng.choice([1, 2, 3, 5])])
        r = rng.random()
        b = rng.choice(names)
        if r < 0.45:
            ops.append(['idle', b] if rng.random() < 0.6 else ['idle', b, rng.choice([1, 3, 50])])
        elif r < 0.85:
            ops.append(['stop', b, rng.choice([None, 0, 2, 5, 50])])
        else:
            ops.append(['crl', b])
        extra.append(ops)
    s['drivers'] += extra
    s['tag'] = 'life_rand'
    return s


# ---------------------------------------------------------------------------------------------
# expect (C18)
# ---------------------------------------------------------------------------------------------
def gen_expect(seed):
    rng = random.Random(seed)
    names = ['b1'] if rng.random() < 0.6 else ['b1', 'b2']
    scripts = {'S_' + b: {'E': [['y', 1]] if rng.random() < 0.5 else [], 'F': [], 'X': [['raise']] if rng.random() < 0.5 else []} for b in names}
    handlers = [wild(b) for b in names]
    if len(names) == 2 and rng.random() < 0.5:
        handlers.append(fwd('b1', 'b2'))
    nexp = rng.randint(1, 3)
    drivers = []
    for i in range(nexp):
        ops = []
        if rng.random() < 0.5:
            ops.append(['y', rng.randint(1, 6)])
        ops.append(['expect', rng.choice(names), rng.choice(['E', 'E', 'F']), rng.choice(['any', 'odd', 'even', 'big', 'boom', 'none']),
                    rng.choice(['none', 'none', 'odd', 'big']), rng.choice([None, 0, 2, 5, 20, 20]), rng.random() < 0.3])
        if rng.random() < 0.15:      # the call is cancelled before it has taken a single step (task cancelled at once / wait_for(..., 0))
            ops[-1].append(rng.choice(['task0', 'wf0']))
        drivers.append(ops)
    prod = []
    for k in range(rng.randint(1, 6)):
        if rng.random() < 0.6:
            prod.append(['y', rng.randint(1, 4)] if rng.random() < 0.6 else ['s', rng.choice([1, 2, 3, 7])])
        prod.append(['d', rng.choice(names), rng.choice(['E', 'E', 'F', 'X']), None, {'n': rng.randint(0, 4)}])
    drivers.append(prod)
    if rng.random() < 0.4:
        drivers.append([['s', rng.choice([1, 3, 6])], ['cancel', rng.randint(1, nexp)]])
    return scn([bus(b) for b in names], handlers, scripts, drivers, horizon=6000, tag='expect')


# ---------------------------------------------------------------------------------------------
# err: raising handlers at every position (C11)
# ---------------------------------------------------------------------------------------------
def sys_errors():
    out = []
    kinds = ['ok', 'raise', 'retexc', 'raise_after_sleep']
    def ops(kind, extra=()):
        base = list(extra)
        if kind == 'ok':
            return base + [['ret', 'i1']]
        if kind == 'raise':
            return base + [['raise']]
        if kind == 'retexc':
            return base + [['ret', 'exc']]
        if kind == 'raise_ce':              # CancelledError raised by the handler's own code, nobody cancelled it (finding G8, repaired)
            return base + [['raise', 'ce']]
        if kind == 'raise_ce_after_sleep':
            return base + [['s', 2], ['raise', 'ce']]
        if kind == 'raise_chain':           # exception with __cause__ and __context__ chains
            return base + [['raise', 'chain']]
        if kind == 'raise_to':              # TimeoutError raised by the handler's own code (finding G10, repaired)
            return base + [['s', 1], ['raise', 'to']]
        if kind == 'retexc_to':             # a TimeoutError / CancelledError *object* returned as the handler's value
            return base + [['s', 1], ['ret', 'exc_to']]
        if kind == 'retexc_ce':
            return base + [['ret', 'exc_ce']]
        return base + [['s', 2], ['raise', 'rt']]
    for k1, k2, k3, sync2, child_kind, fw, par in itertools.product(kinds + ['raise_ce', 'raise_ce_after_sleep', 'raise_chain', 'raise_to', 'retexc_to', 'retexc_ce'], kinds + ['raise_ce', 'raise_chain'], ['ok', 'raise'], [False, True],
                                                                    ['none', 'ok', 'raise', 'raise_ce', 'raise_chain'], [False, True], [False, True]):
        if sync2 and k2 == 'raise_after_sleep':
            continue
        if child_kind in ('raise_ce', 'raise_chain') and k1 in ('retexc', 'raise_after_sleep', 'raise_ce_after_sleep'):
            continue
        if 'raise_chain' in (k1, k2, child_kind) and 'raise_ce' in (k1, k2, child_kind):
            continue
        extra1 = []
        if child_kind != 'none':
            extra1 = [['d', 'b2' if fw else 'b1', 'C'], ['a', 0]]
        scripts = {'H1': {'R': ops(k1, extra1), 'L': []}, 'H2': {'R': ops(k2)}, 'H3': {'R': ops(k3), 'C': ops(child_kind if child_kind in ('raise', 'raise_ce', 'raise_chain') else 'ok'), 'L': []},
                   'HB': {'R': ops(k3), 'C': ops(child_kind if child_kind in ('raise', 'raise_ce', 'raise_chain') else 'ok')}}
        handlers = [typed('b1', 'R', 'H1', hid='h1'), typed('b1', 'R', 'H2', 'sync' if sync2 else 'async', hid='h2'), wild('b1', 'H3', hid='h3'),
                    wild('b2', 'HB', hid='hb')]
        if fw:
            handlers.append(fwd('b1', 'b2'))
        flags = [{'raise_if_any': True}, {'raise_if_any': False, 'raise_if_none': False}]
        d = [['d', 'b1', 'R'], ['d', 'b1', 'L'], ['a', 0], ['idle', 'b1', 2000], ['idle', 'b2', 2000],
             ['acc', 0, 'event_result', flags[0]], ['acc', 0, 'event_results_list', flags[1]]]
        out.append(scn([bus('b1', parallel=par), bus('b2')], handlers, scripts, [d], horizon=6000, tag='errors'))
    return out


# ---------------------------------------------------------------------------------------------
# redispatch: the same event object dispatched to the same bus again (C01: still exactly once per handler)
# ---------------------------------------------------------------------------------------------
def sys_redispatch():
    out = []
    for how, target, h2kind, ny, nh, later in itertools.product(['driver_twice', 'handler_before_await', 'handler_after_await', 'driver_later', 'other_bus'],
                                                                ['b1', 'b2'], ['async', 'sync'], [0, 1, 2], [2, 3], [False, True]):
        h1 = [['d', target, 'C']]
        if how == 'handler_before_await':
            h1 = [['rd', 'b1']] + h1
        if ny:
            h1.append(['y', ny])
        h1.append(['a', 0])
        if how == 'handler_after_await':
            h1.append(['rd', 'b1'])
        if how == 'other_bus':
            h1.append(['rd', 'b2'])
        scripts = {'H1': {'R': h1}, 'H2': {'R': [] if h2kind == 'sync' else [['y', 1]]}, 'H3': {'R': [['s', 1]]},
                   'S_b1': {'C': [['s', 1]], 'U': []}, 'S_b2': {'C': [['y', 1]], 'U': [], 'R': [['y', 1]]}}
        handlers = [typed('b1', 'R', 'H1', hid='h1'), typed('b1', 'R', 'H2', h2kind, hid='h2')]
        if nh == 3:
            handlers.append(typed('b1', 'R', 'H3', hid='h3'))
        handlers += [typed('b1', 'C', 'S_b1', hid='c_b1'), typed('b1', 'U', 'S_b1', hid='u_b1'), wild('b2')]
        d = [['d', 'b1', 'R']]
        if how == 'driver_twice':
            d.append(['rd', 'b1', 0])
        if later:
            d.append(['d', 'b1', 'U'])
        if how == 'driver_later':
            d += [['y', 3], ['rd', 'b1', 0]]
        d += [['a', 0], ['idle', 'b1', 2000], ['idle', 'b2', 2000]]
        out.append(scn([bus('b1'), bus('b2')], handlers, scripts, [d], horizon=6000, tag='redispatch'))
    return out


def sys_errors_par():
    out = []
    for raise_at, c1_sleep, par, target, nsib, sync_c2, what in itertools.product([1, 2, 4], [0, 3, 5], [True, False], ['b1', 'b2'], [1, 2], [False, True], ['', 'to']):
        if what == 'to' and (nsib == 2 or sync_c2):
            continue
        scripts = {'HA': {'R': [['d', target, 'C'], ['a', 0], ['ret', 'i1']]},
                   'HB': {'R': [['s', raise_at], ['raise', what] if what else ['raise']]},   # 'to': the handler itself raises TimeoutError (e.g. from an inner wait_for)
                   'HC': {'R': [['s', raise_at + 1], ['ret', 'exc']]},
                   'C1': {'C': [['s', c1_sleep]] if c1_sleep else []}, 'C2': {'C': [] if sync_c2 else [['y', 1]]},
                   'L': {'L': []}}
        handlers = [typed('b1', 'R', 'HA', hid='ha'), typed('b1', 'R', 'HB', hid='hb')]
        if nsib == 2:
            handlers.append(typed('b1', 'R', 'HC', hid='hc'))
        handlers += [typed(target, 'C', 'C1', hid='c1'), typed(target, 'C', 'C2', 'sync' if sync_c2 else 'async', hid='c2'),
                     typed('b1', 'L', 'L', hid='l1')]
        d = [['d', 'b1', 'R'], ['a', 0], ['d', 'b1', 'L'], ['idle', 'b1', 2000], ['idle', 'b2', 2000],
             ['acc', 0, 'event_result', {'raise_if_any': True}]]
        out.append(scn([bus('b1', parallel=par), bus('b2')], handlers, scripts, [d], horizon=6000, tag='errors_par'))
    return out


def sys_retry_dispatch():
    """C14: a rejected dispatch leaves no trace - dispatching the same event object again later must work like a first dispatch"""
    out = []
    for n, from_handler, wait in itertools.product([100, 101, 105], [False, True], [['idle', 'b1', 3000], ['s', 300]]):
        if from_handler:
            # the handler bursts until rejection, waits for the backlog to drain, then re-dispatches the last (rejected) event
            scripts = {'S_b1': {'R': [['d', 'b1', 'K'] for _ in range(n)] + [['s', 5]], 'K': [], 'Z': [['d', 'b1', 'K'] for _ in range(n)]}}
            d = [['d', 'b1', 'R'], ['a', 0], wait, ['idle', 'b1', 3000]]
        else:
            scripts = {'S_b1': {'R': [['s', 2]], 'K': []}}
            d = [['d', 'b1', 'R']] + [['d', 'b1', 'K'] for _ in range(n)] + [['a', 0], wait, ['rd', 'b1', n], ['a', n], ['idle', 'b1', 3000]]
        out.append(scn([bus('b1', maxhist=200)], [wild('b1')], scripts, [d], horizon=9000, tag='retry_dispatch'))
    return out


def sys_idle_par():
    """C15 on a parallel bus: a handler fails while a sibling is still running, the event is evicted from a small history by a burst"""
    out = []
    for mh, burst, fail_at, slow, par, idle_after in itertools.product([2, 5, 50], [0, 3, 6, 55], [0, 1], [4, 8], [True, False], [0, 1, 3]):
        if burst == 55 and mh != 50:
            continue
        scripts = {'HF': {'R': ([['s', fail_at]] if fail_at else [['y', 1]]) + [['raise']]}, 'HS': {'R': [['s', slow]]}, 'U': {'U': []}}
        handlers = [typed('b1', 'R', 'HF', hid='hfail'), typed('b1', 'R', 'HS', hid='hslow'), typed('b1', 'U', 'U', hid='hu')]
        d = [['d', 'b1', 'R']] + [['d', 'b1', 'U'] for _ in range(burst)]
        if idle_after:
            d.append(['s', idle_after])
        d += [['idle', 'b1'], ['idle', 'b1', 3000]]
        out.append(scn([bus('b1', parallel=par, maxhist=mh)], handlers, scripts, [d], horizon=8000, tag='idle_par'))
    return out


def sys_idle_evict():
    """C15 soundness after evictions: an event processed *inline* on a bus with a small history (its own nested children push it out of
    the history while its handler is still running) while somebody outside calls wait_until_idle() on that bus; the bus's run loop keeps
    polling (0.1 s) in the meantime"""
    out = []
    for mh, nsub, tail, idle_at, inline, wal in itertools.product([1, 2, 3], [1, 2, 3], [150, 400], [20, 120, 250], [True, False], [False, True]):
        if wal and (nsub != 1 or mh != 2):
            continue
        w_ops = []
        for k in range(nsub):
            w_ops += [['d', 'b2', 'S'], ['a', k]]
        w_ops.append(['s', tail])
        scripts = {'SA': {'R': [['d', 'b2', 'W'], ['a', 0]]}, 'SB': {'W': w_ops, 'S': []}}
        handlers = [typed('b1', 'R', 'SA', hid='ha'), wild('b2', 'SB', hid='hb')]
        d1 = [['d', 'b1', 'R'], ['a', 0]] if inline else [['d', 'b2', 'W'], ['a', 0]]
        d2 = [['s', idle_at], ['idle', 'b2', 3000]]
        out.append(scn([bus('b1'), bus('b2', maxhist=mh, wal=wal)], handlers, scripts, [d1, d2], horizon=8000, tag='idle_evict'))
    return out


def sys_stop_in_handler():
    """C16: stop() called from inside a handler - of the bus being stopped (its run loop is waiting for that very handler) or of another
    bus (whose run loop may already hold its next event and wait for the global lock); backlog queued behind"""
    out = []
    for target, after, nh, backlog, other_busy, par, fin in itertools.product(['b1', 'b2'], [[], [['y', 1]], [['s', 3]], [['d', 'b1', 'L'], ['y', 1]]], [1, 2],
                                                                           [0, 2], [False, True], [False, True], ['idle', 'none']):
        h1 = [['stop', target]] + after
        scripts = {'H1': {'R': h1, 'L': [], 'M': []}, 'H2': {'R': [['s', 1]], 'L': [], 'M': []}, 'SB': {'M': [['s', 2]], 'L': [], 'R': []}}
        handlers = [typed('b1', 'R', 'H1', hid='h1')]
        if nh == 2:
            handlers.append(typed('b1', 'R', 'H2', hid='h2'))
        handlers += [typed('b1', 'L', 'H2', hid='hl'), wild('b2', 'SB', hid='hb')]
        d = []
        if other_busy:
            d.append(['d', 'b2', 'M'])       # b2's run loop takes it and then waits for the lock b1's handler holds
        d.append(['d', 'b1', 'R'])
        d += [['d', 'b1', 'L'] for _ in range(backlog)] + [['d', 'b2', 'M'] for _ in range(backlog)]
        d += [['s', 300]] + ([['idle', 'b1', 1000], ['idle', 'b2', 1000]] if fin == 'idle' else [])   # (idle on a stopped bus restarts it: finding G3)
        out.append(scn([bus('b1', parallel=par), bus('b2')], handlers, scripts, [d], horizon=8000, tag='stop_in_handler'))
    return out


def sys_late_on():
    """C01 with handlers registered at run time: bus.on() after the bus has already processed events of that type (and of other types),
    while an event is queued, while one is in flight; typed and wildcard, sync and async, on the entry bus and on a second bus"""
    out = []
    for pat, kind, when, nested, other_bus, pre in itertools.product(['*', 'T'], ['async', 'sync'], ['before_any', 'after_first', 'while_queued', 'in_flight'],
                                                                    [False, True], [False, True], [0, 1]):
        lb = 'b2' if other_bus else 'b1'
        scripts = {'H': {'T': ([['d', lb, 'T2']] + ([['a', 0]] if kind == 'async' else []) if nested else []) + ([['s', 4]] if when == 'in_flight' else []),
                         'T2': [], 'U': []},
                   'LATE': {'T': [], 'T2': [], 'U': []}}
        handlers = [typed('b1', 'T', 'H', hid='h_t'), wild('b1', 'H', hid='h_w'), wild('b2', 'H', hid='h_b2'),
                    dict(typed(lb, 'T', 'LATE', kind, hid='late') if pat == 'T' else wild(lb, 'LATE', kind, hid='late'), late=True)]
        d = [['d', 'b1', 'U']] * pre
        if when == 'before_any':
            d += [['on', 'late'], ['d', lb, 'T'], ['a', pre]]
        elif when == 'after_first':
            d += [['d', lb, 'T'], ['a', pre], ['on', 'late']]
        elif when == 'while_queued':     # registered after the dispatch but before the bus takes the event
            d += [['d', lb, 'T'], ['on', 'late'], ['a', pre]]
        else:                            # registered while the first event's handler is sleeping
            d += [['d', lb, 'T'], ['s', 2], ['on', 'late'], ['a', pre]]
        d += [['d', lb, 'T'], ['d', 'b1', 'T'], ['d', lb, 'U'], ['idle', 'b1', 2000], ['idle', 'b2', 2000]]
        out.append(scn([bus('b1'), bus('b2')], handlers, scripts, [d], horizon=6000, tag='late_on'))
    return out


def sys_timeout_stray():
    """C03 / C10: a fire-and-forget child U of an event Q whose own handlers have long returned is drained inline by an unrelated handler
    (awaiting its own child) whose timeout fires while U is being handled: U must still complete and Q (which nothing else will ever
    re-check) with it"""
    out = []
    for tmo, su, sc, ub, nh, deep, par in itertools.product([2, 4], [3, 6, 9], [0, 3], ['b1', 'b2'], [1, 2], [False, True], [False, True]):
        u_ops = ([['d', ub, 'V']] if deep else []) + [['s', su]]
        scripts = {'SQ': {'Q': [['d', ub, 'U']]}, 'SU': {'U': u_ops, 'V': [['s', 1]]}, 'SU2': {'U': [['s', 1]]},
                   'SP': {'P': [['d', 'b1', 'C'], ['a', 0], ['s', 1]]}, 'SC': {'C': [['s', sc]] if sc else []}}
        handlers = [typed('b1', 'Q', 'SQ', hid='hq'), typed(ub, 'U', 'SU', hid='hu'), typed(ub, 'V', 'SU', hid='hv'),
                    typed('b1', 'P', 'SP', hid='hp'), typed('b1', 'C', 'SC', hid='hc')]
        if nh == 2:
            handlers.append(typed(ub, 'U', 'SU2', hid='hu2'))
        d = [['d', 'b1', 'Q'], ['d', 'b1', 'P'], ['a', 0], ['a', 1], ['idle', 'b1', 2000], ['idle', 'b2', 2000]]
        out.append(scn([bus('b1'), bus('b2', parallel=par)], handlers, scripts, [d], events={'P': {'timeout': tmo}}, horizon=8000, tag='timeout_stray'))
        if not deep:
            # a later, unrelated handler awaits the stray event U itself (event 3 in creation order: Q, P, U, C, Z): it must get it back complete
            x = json.loads(json.dumps(out[-1]))
            x['scripts']['SZ'] = {'Z': [['ax', 3], ['y', 1]]}
            x['handlers'].append(typed('b1', 'Z', 'SZ', hid='hz'))
            x['drivers'][0] = [['d', 'b1', 'Q'], ['d', 'b1', 'P'], ['s', 30], ['d', 'b1', 'Z'], ['a', 2], ['a', 0], ['a', 1], ['idle', 'b1', 2000], ['idle', 'b2', 2000]]
            out.append(x)
    return out


def sys_await_after_stop():
    """C04 while a stopped bus is still around: the inline drain of an awaiting handler walks every live EventBus instance, including
    buses that were stopped earlier (empty, shut-down queue); the await must still return the child complete"""
    out = []
    for used, order, child_bus, grand, pre in itertools.product([True, False], ['fwd', 'rev'], ['b1', 'b2'], [False, True], [0, 2]):
        c_ops = ([['d', 'b1', 'G'], ['a', 0]] if grand else []) + [['y', 1]]
        scripts = {'S1': {'R': [['d', child_bus, 'C'], ['a', 0], ['y', 1]], 'C': c_ops, 'G': [['s', 1]], 'L': []},
                   'S2': {'C': c_ops, 'G': [], 'L': []}, 'SS': {'Z': []}}
        handlers = [wild('b1', 'S1', hid='h1'), wild('b2', 'S2', hid='h2'), wild('bs', 'SS', hid='hs')]
        d = ([['d', 'bs', 'Z'], ['a', 0]] if used else []) + [['stop', 'bs'], ['s', 150]]
        d += [['d', 'b1', 'L']] * pre + [['d', 'b1', 'R'], ['a', (1 if used else 0) + pre], ['idle', 'b1', 2000], ['idle', 'b2', 2000]]
        x = scn([bus('bs'), bus('b1'), bus('b2')], handlers, scripts, [d], horizon=6000, tag='await_after_stop')
        x['busorder'] = order
        out.append(x)
    return out


def sys_lock_wait():
    """C05 / C06 when a run loop has to wait for the global lock longer than the timeout of the event it holds: an event with a short
    event_timeout arrives on another bus while a handler (awaiting a slow child, or just slow itself) holds the lock; its handler must not
    start before the lock is free"""
    out = []
    for awaiting, hold, tmo, at, nside, order in itertools.product([True, False], [8, 30], [1, 2, 5], [0, 1, 3], [1, 2], ['fwd', 'rev']):
        r_ops = ([['d', 'b1', 'C'], ['a', 0]] if awaiting else [['s', hold]]) + [['y', 1]]
        scripts = {'S1': {'R': r_ops, 'C': [['s', hold]]}, 'S2': {'S': [['s', 1]]}}
        handlers = [wild('b1', 'S1', hid='h1'), wild('b2', 'S2', hid='h2')]
        d1 = [['d', 'b1', 'R'], ['a', 0], ['idle', 'b1', 2000], ['idle', 'b2', 2000]]
        d2 = [['s', at]] + [['d', 'b2', 'S']] * nside
        x = scn([bus('b1'), bus('b2')], handlers, scripts, [d1, d2], events={'S': {'timeout': tmo}}, horizon=6000, tag='lock_wait')
        x['busorder'] = order
        out.append(x)
    return out


def sys_cancel_cleanup():
    """C06 / C02 / C10 with handlers that need awaited clean-up after being cancelled (try / finally with awaits): whoever cancelled them
    (their own timeout, a parent's timeout, stop()) has to wait until they are really done before anything else may start"""
    out = []
    for src, cl, nh, tgt, par in itertools.product(['own', 'parent', 'stop', 'parent_par'], [150, 400], [1, 2], ['b1', 'b2'], [False, True]):
        if src == 'parent_par':
            # the awaited child runs two handlers on a parallel_handlers bus; the one that is *not* awaited first needs the clean-up time
            if tgt == 'b1' or par:
                continue
            scripts = {'H1': {'R': [['d', 'b2', 'C'], ['a', 0]], 'L': [], 'M': []}, 'H2': {'R': [['s', 1]], 'L': [['s', 1]], 'M': []},
                       'C1': {'C': [['s', 50]], 'M': []}, 'C2': {'C': [['cl', cl], ['s', 50]], 'M': []}}
            handlers = [typed('b1', 'R', 'H1', hid='h1')] + ([typed('b1', 'R', 'H2', hid='h2')] if nh == 2 else [])
            handlers += [typed('b1', 'L', 'H2', hid='hl'), typed('b2', 'C', 'C1', hid='c1'), typed('b2', 'C', 'C2', hid='c2'), typed('b2', 'M', 'C1', hid='hm')]
            d = [['d', 'b1', 'R'], ['d', 'b1', 'L'], ['d', 'b2', 'M'], ['a', 0], ['s', 800], ['idle', 'b1', 2000], ['idle', 'b2', 2000]]
            out.append(scn([bus('b1'), bus('b2', parallel=True)], handlers, scripts, [d], events={'R': {'timeout': 5}}, horizon=8000, tag='cancel_cleanup'))
            continue
        if src == 'own':
            scripts = {'H1': {'R': [['cl', cl], ['s', 50]], 'L': [], 'M': []}, 'H2': {'R': [['s', 1]], 'L': [['s', 1]], 'M': []}}
            events = {'R': {'timeout': 5}}
        elif src == 'parent':
            scripts = {'H1': {'R': [['d', tgt, 'C'], ['a', 0]], 'C': [['cl', cl], ['s', 50]], 'L': [], 'M': []},
                       'H2': {'R': [['s', 1]], 'L': [['s', 1]], 'M': [], 'C': [['s', 1]]}}
            events = {'R': {'timeout': 5}}
        else:
            # the handler is still asleep when stop()'s 0.1 s of grace are over: it is cancelled, and stop() returns without waiting for its clean-up
            scripts = {'H1': {'R': [['cl', cl], ['s', 300]], 'L': [], 'M': []}, 'H2': {'R': [['s', 1]], 'L': [['s', 1]], 'M': []}}
            events = {}
        handlers = [typed('b1', 'R', 'H1', hid='h1')] + ([typed('b1', 'R', 'H2', hid='h2')] if nh == 2 else [])
        handlers += [typed('b1', 'L', 'H2', hid='hl'), wild('b2', 'H2' if src != 'parent' else 'H1', hid='hb2')]
        d = [['d', 'b1', 'R'], ['d', 'b1', 'L'], ['d', 'b2', 'M']]
        if src == 'stop':
            d += [['s', 3], ['stop', 'b1']]
        d += [['s', 800], ['idle', 'b2', 2000]]
        out.append(scn([bus('b1', parallel=par), bus('b2')], handlers, scripts, [d], events=events, horizon=8000, tag='cancel_cleanup'))
    return out


def sys_hist_fwd():
    """C13 eviction order with forwarding: an event forwarded from a hub with a small history is still running on the other bus while its
    handler there dispatches (and awaits) more events on the hub than the hub's history holds"""
    out = []
    for mh, k, awaited, order, first in itertools.product([2, 3, 5], [2, 4, 7], [True, False], ['fwd', 'rev'], [True, False]):
        j_ops = []
        for i in range(k):
            j_ops += [['d', 'b1', 'P']] + ([['a', i]] if awaited else [])
        j_ops.append(['s', 3])
        scripts = {'SB': {'J': j_ops, 'P': []}, 'SA': {'P': [], 'J': []}}
        handlers = ([fwd('b1', 'b2', 'J')] if first else []) + [wild('b1', 'SA', hid='ha')] + ([] if first else [fwd('b1', 'b2', 'J')]) + [wild('b2', 'SB', hid='hb')]
        d = [['d', 'b1', 'J'], ['a', 0], ['idle', 'b1', 2000], ['idle', 'b2', 2000]]
        x = scn([bus('b1', maxhist=mh), bus('b2')], handlers, scripts, [d], horizon=6000, tag='hist_fwd')
        x['busorder'] = order
        out.append(x)
    return out


def sys_stop_clear():
    """C16: stop(clear=True) / stop(timeout=...) from ordinary code while a handler of *another* bus is mid-flight (and holds the global
    lock for a long time): stop() must still return within its bound"""
    out = []
    for clear, tmo, hold, at, backlog, used in itertools.product([True, False], [None, 0, 20], [300, 900], [3, 50], [0, 2], [True, False]):
        scripts = {'S1': {'R': [['s', hold]], 'L': []}, 'S2': {'M': [['s', 2]], 'L': []}}
        handlers = [wild('b1', 'S1', hid='h1'), wild('b2', 'S2', hid='h2')]
        d1 = [['d', 'b1', 'R'], ['a', 0], ['idle', 'b1', 3000]]
        d2 = ([['d', 'b2', 'L'], ['a', 0]] if used else []) + [['s', at]] + [['d', 'b2', 'M']] * backlog + [['stop', 'b2', tmo, clear], ['s', 1500]]
        out.append(scn([bus('b1'), bus('b2')], handlers, scripts, [d1, d2], horizon=8000, tag='stop_clear'))
    return out


def sys_idle_target():
    """C05 / C04: the awaited child goes to a *different* bus whose run loop is running and idle (blocked in queue.get()), while a bystander
    event is already held by a third bus's run loop waiting for the lock: the child must be processed inline, before the bystander"""
    out = []
    for pre, order, warm, grand, nby in itertools.product([0, 2], ['fwd', 'rev'], [True, False], [False, True], [1, 2]):
        c_ops = ([['d', 'b3', 'G'], ['a', 0]] if grand else []) + [['y', 1]]
        scripts = {'S1': {'R': ([['s', pre]] if pre else []) + [['d', 'b3', 'C'], ['a', 0], ['y', 1]], 'W': []},
                   'S2': {'S': [['s', 1]], 'W': []}, 'S3': {'C': c_ops, 'G': [], 'W': []}}
        handlers = [wild('b1', 'S1', hid='h1'), wild('b2', 'S2', hid='h2'), wild('b3', 'S3', hid='h3')]
        d1 = ([['d', 'b3', 'W'], ['a', 0], ['d', 'b2', 'W'], ['a', 1], ['s', 150]] if warm else []) + [['d', 'b1', 'R'], ['a', 2 if warm else 0],
                                                                                                  ['idle', 'b1', 2000], ['idle', 'b2', 2000], ['idle', 'b3', 2000]]
        d2 = [['s', (151 if warm else 0) + (1 if pre else 0)]] + [['d', 'b2', 'S']] * nby
        x = scn([bus('b1'), bus('b2'), bus('b3')], handlers, scripts, [d1, d2], horizon=6000, tag='idle_target')
        x['busorder'] = order
        out.append(x)
    return out


def sys_gather_await():
    """C04 when a handler awaits its children through helper tasks (asyncio.gather, TaskGroup, ensure_future): every helper task inherits
    the handler's context and must be able to process the children inline - no deadlock against the bus running the handler"""
    out = []
    for how, tgt, n, slow, par, grand, order in itertools.product(['g', 'tg', 'ef'], ['b1', 'b2'], [2, 3], [0, 2], [False, True], [False, True], ['fwd', 'rev']):
        r_ops = [['d', tgt, 'C'] for _ in range(n)] + [['ga', how] + list(range(n)), ['y', 1]]
        c_ops = ([['d', 'b1', 'G'], ['ga', how, 0]] if grand else []) + ([['s', slow]] if slow else [])
        scripts = {'S1': {'R': r_ops, 'C': c_ops, 'G': [['y', 1]], 'L': []}, 'S2': {'C': c_ops, 'G': [], 'L': []}}
        handlers = [wild('b1', 'S1', hid='h1'), wild('b2', 'S2', hid='h2')]
        d = [['d', 'b1', 'R'], ['d', 'b1', 'L'], ['a', 0], ['idle', 'b1', 2000], ['idle', 'b2', 2000]]
        x = scn([bus('b1', parallel=par), bus('b2')], handlers, scripts, [d], horizon=6000, tag='gather_await')
        x['busorder'] = order
        out.append(x)
    return out


def sys_par_held():
    """C06 when a child sits with another bus's run loop (taken off its queue, waiting for the lock) while its dispatcher polls for it:
    nobody but the awaited tree may run in the meantime - neither a sibling handler's inline work on a parallel_handlers bus nor, after the
    dispatcher's timeout, the next event of its bus"""
    out = []
    for par, tmo, csleep, sib, order in itertools.product([True, False], [None, 6], [5, 40], ['await', 'sleep', 'none'], ['fwd', 'rev']):
        if not par and sib != 'none':
            continue
        scripts = {'HA': {'R': [['d', 'b2', 'C'], ['y', 2], ['a', 0], ['y', 1]]},
                   'HB': {'R': [['s', 1], ['d', 'b1', 'K'], ['a', 0]] if sib == 'await' else [['s', 3]]},
                   'HK': {'K': [['s', 2]], 'L': [['s', 1]]}, 'S2': {'C': [['s', csleep]]}}
        handlers = [typed('b1', 'R', 'HA', hid='ha')] + ([typed('b1', 'R', 'HB', hid='hb')] if sib != 'none' else [])
        handlers += [typed('b1', 'K', 'HK', hid='hk'), typed('b1', 'L', 'HK', hid='hl'), wild('b2', 'S2', hid='h2')]
        d = [['d', 'b2', 'W'], ['a', 0], ['s', 150], ['d', 'b1', 'R'], ['d', 'b1', 'L'], ['a', 1], ['idle', 'b1', 2000], ['idle', 'b2', 2000]]
        scripts['S2']['W'] = []
        x = scn([bus('b1', parallel=par), bus('b2')], handlers, scripts, [d], events=({'R': {'timeout': tmo}} if tmo else {}), horizon=8000, tag='par_held')
        x['busorder'] = order
        out.append(x)
    return out


def sys_capacity_fwd():
    """C14 with forwarding: a handler on a hub awaits many children one by one while every child is also forwarded to a second, bounded bus
    whose run loop cannot run meanwhile: that bus's 50-slot queue fills with events that already look complete; further forwards are
    rejected, and whatever was accepted is still processed there"""
    out = []
    for n, mh, awaited in itertools.product([45, 55, 70], [60, 100], [True, False]):
        r_ops = []
        for i in range(n):
            r_ops += [['d', 'b1', 'K']] + ([['a', i]] if awaited else [])
        r_ops.append(['s', 2])
        scripts = {'S1': {'R': r_ops, 'K': []}, 'S2': {'K': [], 'R': []}}
        handlers = [typed('b1', 'R', 'S1', hid='hr'), typed('b1', 'K', 'S1', hid='hk'), fwd('b1', 'b2', 'K'), wild('b2', 'S2', hid='h2')]
        d = [['d', 'b1', 'R'], ['a', 0], ['idle', 'b1', 3000], ['idle', 'b2', 3000]]
        out.append(scn([bus('b1', maxhist=200), bus('b2', maxhist=mh)], handlers, scripts, [d], horizon=10000, tag='capacity_fwd'))
    return out


def gen_fwd_timeout(seed):
    """forwarding graphs with handler timeouts (and some parallel buses): an event in flight on several buses whose processing on one of
    them is interrupted (C08, C10, C07)"""
    rng = random.Random(seed * 13 + 7)
    s = gen_fwd(seed * 7 + 3)
    tys = set()
    for sc in s['scripts'].values():
        tys |= set(sc.keys())
    tys = sorted(tys)
    for ty in rng.sample(tys, min(len(tys), rng.randint(1, 2))):
        s['events'][ty] = {'timeout': rng.choice([1, 2, 3, 4, 6])}
    for b in s['buses']:
        if rng.random() < 0.25:
            b['parallel'] = True
    for ops in s['drivers']:
        for op in ops:
            if op[0] == 'idle' and len(op) == 2:
                op.append(2000)
    s['tag'] = 'fwd_timeout'
    return s


def sys_idle_in_handler():
    """C02 / C06: a handler calls wait_until_idle() (with a timeout) on its own bus or on another bus while events are queued behind it: it
    is not awaiting an event, so nothing else may start on a serial bus until it is done"""
    out = []
    for tgt, nq, tmo, par, after in itertools.product(['b1', 'b2'], [1, 3], [120, 300], [False, True], [[], [['s', 2]]]):
        scripts = {'S1': {'R': [['idle', tgt, tmo]] + after, 'L': [['s', 1]]}, 'S2': {'M': [['s', 1]], 'L': []}}
        handlers = [wild('b1', 'S1', hid='h1'), wild('b2', 'S2', hid='h2')]
        d = [['d', 'b1', 'R']] + [['d', 'b1', 'L']] * nq + [['d', 'b2', 'M']] * nq + [['s', 600], ['idle', 'b1', 2000], ['idle', 'b2', 2000]]
        out.append(scn([bus('b1', parallel=par), bus('b2')], handlers, scripts, [d], horizon=8000, tag='idle_in_handler'))
    return out


def sys_retry_handler():
    """C10 with @retry-decorated handlers (per-attempt timeout longer than the event timeout): the bus's cancellation must reach the handler
    body through the decorator - the body stops, the awaited child's pending handlers are cancelled"""
    out = []
    for tmo, rt, awaited, csleep, par in itertools.product([3, 6], [40, 200], [True, False], [0, 10], [False, True]):
        r_ops = ([['d', 'b1', 'C'], ['a', 0]] if awaited else []) + [['s', 20], ['y', 1]]
        scripts = {'SR': {'R': r_ops}, 'SC': {'C': [['s', csleep]] if csleep else [], 'L': []}, 'SC2': {'C': [['s', 1]]}}
        handlers = [dict(typed('b1', 'R', 'SR', hid='hr'), retry={'timeout': rt}), typed('b1', 'C', 'SC', hid='hc'), typed('b1', 'C', 'SC2', hid='hc2'),
                    typed('b1', 'L', 'SC', hid='hl')]
        d = [['d', 'b1', 'R'], ['d', 'b1', 'L'], ['a', 0], ['s', 300], ['idle', 'b1', 2000]]
        out.append(scn([bus('b1', parallel=par)], handlers, scripts, [d], events={'R': {'timeout': tmo}}, horizon=8000, tag='retry_handler'))
    return out


def sys_redispatch_evict():
    """C01 / C08 after eviction: a completed event is pushed out of a small history by later traffic and the same object is then dispatched
    to the same bus again: no handler runs a second time, its results stay what they were"""
    out = []
    for mh, nfill, nh, awaited, order in itertools.product([1, 3, 5], [2, 6, 12], [1, 2], [True, False], ['driver', 'handler']):
        scripts = {'SR': {'R': [['ret', 'i1']]}, 'SR2': {'R': [['y', 1], ['ret', 'i2']]}, 'SF': {'F': [], 'Z': [['rd', 'b1']] if order == 'handler' else []}}
        handlers = [typed('b1', 'R', 'SR', hid='hr')] + ([typed('b1', 'R', 'SR2', hid='hr2')] if nh == 2 else []) + [typed('b1', 'F', 'SF', hid='hf')]
        d = [['d', 'b1', 'R'], ['a', 0]]
        for i in range(nfill):
            d += [['d', 'b1', 'F']] + ([['a', i + 1]] if awaited else [])
        d += [['idle', 'b1', 2000], ['rd', 'b1', 0], ['idle', 'b1', 2000], ['acc', 0, 'event_results_list', {'raise_if_any': False, 'raise_if_none': False}]]
        out.append(scn([bus('b1', maxhist=mh)], handlers, scripts, [d], horizon=8000, tag='redispatch_evict'))
    return out


def sys_hist_nohandler():
    """C13 eviction order with events nobody handles on that bus (they complete with no results at all): still `completed` for eviction, so a
    running event is not evicted while they remain"""
    out = []
    for mh, nnone, nk, slow in itertools.product([2, 3, 6], [1, 3, 5], [1, 3], [5, 20]):
        scripts = {'SR': {'R': [['s', slow]], 'K': []}}
        handlers = [typed('b1', 'R', 'SR', hid='hr'), typed('b1', 'K', 'SR', hid='hk')]
        d = [['d', 'b1', 'N']] * nnone + [['idle', 'b1', 2000], ['d', 'b1', 'R'], ['s', 1]] + [['d', 'b1', 'K']] * nk + [['d', 'b1', 'N']] * 2 + [['a', nnone], ['idle', 'b1', 2000]]
        out.append(scn([bus('b1', maxhist=mh)], handlers, scripts, [d], horizon=8000, tag='hist_nohandler'))
    return out


def gen_fwd_idle(seed):
    """forwarding graphs with a second driver that calls wait_until_idle() on some bus at several moments (C15 soundness while forwarded
    events are in flight between buses and run loops wait for the lock)"""
    rng = random.Random(seed * 17 + 1)
    s = gen_fwd(seed * 5 + 2)
    names = [b['name'] for b in s['buses']]
    ops = []
    for _ in range(rng.randint(2, 4)):
        ops.append(rng.choice([['y', rng.randint(1, 6)], ['s', rng.choice([1, 2, 3])]]))
        ops.append(['idle', rng.choice(names), 2000])
    s['drivers'].append(ops)
    for dops in s['drivers'][:1]:
        for op in dops:
            if op[0] == 'idle' and len(op) == 2:
                op.append(2000)
    s['tag'] = 'fwd_idle'
    return s


def sys_idle_forward_lock():
    """C15 soundness for an event that arrives by forwarding while wait_until_idle() is pending and whose run loop then has to queue for the
    global lock behind another bus: the call must not return before the bus has processed it"""
    out = []
    for wsleep, hsleep, gap, order, typed_fwd in itertools.product([200, 120], [400, 150], [20, 1], ['fwd', 'rev'], [True, False]):
        scripts = {'SW': {'W': [['s', wsleep]], 'J': [['s', 10]]}, 'SO': {'H': [['s', hsleep]], 'W': [], 'J': []}, 'SF': {'W': [], 'H': []}}
        handlers = [fwd('b1', 'b2', 'J') if typed_fwd else fwd('b1', 'b2'), typed('b2', 'W', 'SW', hid='hw'), typed('b2', 'J', 'SW', hid='hj'), typed('b3', 'H', 'SO', hid='hh')]
        d = [['idle', 'b1', 500], ['idle', 'b2', 500], ['idle', 'b3', 500], ['d', 'b2', 'W'], ['s', 50], ['d', 'b1', 'J'], ['d', 'b3', 'H'], ['s', gap],
             ['idle', 'b2', 3000], ['idle', 'b1', 3000], ['idle', 'b3', 3000]]
        x = scn([bus('b1'), bus('b2'), bus('b3')], handlers, scripts, [d], horizon=8000, tag='idle_forward_lock')
        x['busorder'] = order
        out.append(x)
    return out


def gen_wal(seed):
    rng = random.Random(seed)
    nb = rng.choice([1, 2, 2, 3])
    names = ['b%d' % (i + 1) for i in range(nb)]
    faults = []
    buses = []
    heavy = rng.random() < 0.25
    for n in names:
        fl = []
        if heavy:      # many transient faults with successful writes in between and afterwards
            fl = sorted({'%s:%d' % (rng.choice(['open', 'write']), k) for k in rng.sample(range(1, 9), rng.randint(3, 6))})
        elif rng.random() < 0.35:
            fl = ['%s:%d' % (rng.choice(['open', 'write']), rng.randint(1, 4)) for _ in range(rng.randint(1, 2))]
        buses.append(bus(n, wal=heavy or rng.random() < 0.85, wal_faults=fl))
    handlers, scripts = [], {}
    for b in names:
        sc = {'W1': [], 'W2': [], 'W3': []}
        if rng.random() < 0.7:
            sc['W1'] = [['d', rng.choice(names), 'W2']] + ([['y', rng.randint(1, 2)]] if rng.random() < 0.4 else []) + ([['a', 0]] if rng.random() < 0.7 else [])
        if rng.random() < 0.4:
            sc['W2'] = [['d', rng.choice(names), 'W3'], ['a', 0]] if rng.random() < 0.6 else [['s', rng.choice([1, 3])]]
        if rng.random() < 0.2:
            sc['W3'] = [['raise']]
        scripts['S_' + b] = sc
        handlers.append(wild(b))
        if rng.random() < 0.3:
            scripts['T_' + b] = {'W1': [['ret', 'i1']], 'W2': [['raise']]}
            handlers.append(typed(b, rng.choice(['W1', 'W2']), 'T_' + b, rng.choice(['sync', 'async'])))
    if nb == 3 and rng.random() < 0.5:
        # a forwarding chain over three WAL buses: the event's path keeps growing between the buses' WAL writes
        order = rng.sample(names, 3)
        for b in buses:
            b['wal'] = True
        for a, c in zip(order, order[1:]):
            f = fwd(a, c)
            if rng.random() < 0.5:
                handlers.insert(0, f)
            else:
                handlers.append(f)
    elif nb > 1 and rng.random() < 0.6:
        a, c = rng.sample(names, 2)
        f = fwd(a, c)
        if rng.random() < 0.5:
            handlers.insert(0, f)      # forwarded before the bus's own handlers run: the event is in flight on two buses at once
        else:
            handlers.append(f)
    payloads = [
        {'n': 1, 's': 'plain'},
        {'n': -5, 's': 'h\u00e9llo \u2603 \u4e2d\u6587 \U0001F600', 'tags': ['a', 'b\n', '"q"'], 'nested': {'k': [1, {'z': None}], 'u': '\u00fc'}},
        {'n': 2 ** 40, 's': '', 'opt': 1.5, 'nested': {'deep': {'deeper': {'x': [[], {}, [1.25, True, None]]}}}},
        {'n': 0, 's': 'line\nbreak\ttab\\ back', 'extra_field': {'free': ['form', 1, 2.5]}, 'another': 'x'},
        {'n': 7, 's': 'dt', 'when': '2031-12-31T23:59:59.123456+00:00'},
    ]
    d = []
    for i in range(rng.randint(6, 10) if heavy else rng.randint(1, 4)):
        if rng.random() < 0.3:
            d.append(['y', rng.randint(1, 3)])
        p = dict(rng.choice(payloads))
        if rng.random() < 0.5:
            p['n'] = rng.randint(-10 ** 6, 10 ** 6)
            p['s'] = ''.join(chr(rng.choice([rng.randint(32, 126), rng.randint(0xa0, 0x24f), rng.randint(0x4e00, 0x4e40)])) for _ in range(rng.randint(0, 12)))
        d.append(['d', rng.choice(names), 'W1', None, p])
    d += [['a', 0]] + [['idle', b, 2000] for b in names]
    return scn(buses, handlers, scripts, [d], horizon=8000, tag='wal')


def sys_deep_timeout():
    """four nested in-handler awaits (distinct typed handlers per level, so the recursion guard stays out of it); a middle level times out
    while a leaf handler runs; the leaf has a second, still pending, handler; an unrelated event is queued meanwhile"""
    out = []
    for tlevel, tmo, leaf_sleep, alt, unrelated_at, leaf2, outer_extra in itertools.product([1, 2], [3, 6], [10, 20], [False, True], [None, 1, 4], [True, False], [False, True]):
        names = ['b1', 'b2'] if alt else ['b1']
        def bus_of(i):
            return names[i % len(names)]
        scripts, handlers, events = {}, [], {}
        for lvl in range(4):
            ty = 'T%d' % lvl
            ops = []
            if lvl < 3:
                ops = [['d', bus_of(lvl + 1), 'T%d' % (lvl + 1)], ['a', 0]]
                if lvl == 0 and outer_extra:
                    ops.append(['s', 2])
            else:
                ops = [['s', leaf_sleep]]
            scripts['H%d' % lvl] = {ty: ops}
            handlers.append(typed(bus_of(lvl), ty, 'H%d' % lvl, hid='h%d' % lvl))
            if lvl == tlevel:
                events[ty] = {'timeout': tmo}
        if leaf2:
            scripts['H3b'] = {'T3': [['y', 1]]}
            handlers.append(typed(bus_of(3), 'T3', 'H3b', hid='h3b'))
        scripts['HU'] = {'U': []}
        for b in names:
            handlers.append(typed(b, 'U', 'HU', hid='u_' + b))
        d = [['d', 'b1', 'T0']]
        if unrelated_at is not None:
            d += [['s', unrelated_at], ['d', bus_of(1), 'U']]
        d += [['a', 0]] + [['idle', b, 2000] for b in names]
        out.append(scn([bus(b) for b in names], handlers, scripts, [d], events=events, horizon=9000, tag='deep_timeout'))
    return out


def sys_fwd_deep():
    """dispatch chains four and five levels deep (a distinct typed handler per level) on buses that forward: forwarding handlers
    see every level, the recursion guard must not count them"""
    out = []
    names = ['b1', 'b2', 'b3']
    rings = {'ring': [('b1', 'b2'), ('b2', 'b3'), ('b3', 'b1')], 'chain': [('b1', 'b2'), ('b2', 'b3')], 'star': [('b1', 'b2'), ('b1', 'b3')],
             'self': [('b1', 'b1'), ('b1', 'b2')]}
    for gname, edges in rings.items():
        for depth, awaited, fwd_first, target_same in itertools.product([3, 4, 5], [False, True], [False, True], [True, False]):
            scripts, handlers = {}, []
            f = [fwd(s_, d_) for (s_, d_) in edges]
            lv_handlers = []
            for lvl in range(depth + 1):
                ty = 'N%d' % lvl
                b = 'b1' if target_same else names[lvl % 3]
                ops = []
                if lvl < depth:
                    nb = 'b1' if target_same else names[(lvl + 1) % 3]
                    ops = [['d', nb, 'N%d' % (lvl + 1)]] + ([['a', 0]] if awaited else [])
                scripts['L%d' % lvl] = {ty: ops + [['rb']]}
                lv_handlers.append(typed(b, ty, 'L%d' % lvl, hid='n%d' % lvl))
            handlers = (f + lv_handlers) if fwd_first else (lv_handlers + f)
            d = [['d', 'b1', 'N0'], ['a', 0]] + [['idle', b, 3000] for b in names] + [['idle', b, 3000] for b in names]
            out.append(scn([bus(b) for b in names], handlers, scripts, [d], horizon=12000, tag='fwd_deep'))
    return out


# ---------------------------------------------------------------------------------------------
# par_timeout: handler timeouts while the awaited child runs several handlers on a parallel_handlers bus (C10, C03, C15;
# finding G7 was found here and repaired: the siblings of the interrupted handler kept running and the child never completed)
# ---------------------------------------------------------------------------------------------
def sys_par_timeout():
    out = []
    for par_b1, tmo, s1, s2, tgt, grand, nh in itertools.product([True, False], [2, 3, 6], [0, 1, 5], [1, 5, 8], ['b1', 'b2'], [False, True], [2, 3]):
        c2 = [['s', s2]]
        if grand:
            c2 = [['d', 'b1', 'G'], ['a', 0]] + c2
        scripts = {'SR': {'R': [['d', tgt, 'C'], ['a', 0], ['s', 1]]}, 'SC1': {'C': ([['s', s1]] if s1 else [])}, 'SC2': {'C': c2},
                   'SC3': {'C': [['y'], ['s', 2]]}, 'SG': {'G': [['s', 3]]}}
        handlers = [typed('b1', 'R', 'SR', hid='hr'), typed(tgt, 'C', 'SC1', hid='hc1'), typed(tgt, 'C', 'SC2', hid='hc2'), typed('b1', 'G', 'SG', hid='hg')]
        if nh == 3:
            handlers.append(typed(tgt, 'C', 'SC3', hid='hc3'))
        d = [['d', 'b1', 'R'], ['a', 0], ['idle', 'b1', 3000], ['idle', 'b2', 3000]]
        buses = [bus('b1', parallel=bool(par_b1 or tgt == 'b1')), bus('b2', parallel=True)]
        out.append(scn(buses, handlers, scripts, [d], events={'R': {'timeout': tmo}}, horizon=12000, tag='par_timeout'))
        if par_b1 and nh == 2 and not grand:
            # a sibling handler of the awaiting one on the parallel bus times out first (registered before it) while the child is mid-run
            x = json.loads(json.dumps(out[-1]))
            x['scripts']['SR0'] = {'R': [['s', 50]]}
            x['handlers'].insert(0, typed('b1', 'R', 'SR0', hid='hr0'))
            x['buses'][0]['parallel'] = True
            out.append(x)
    return out


def gen_timeout_par(seed):
    rng = random.Random(seed)
    s = gen_nest(seed * 11 + 5, errors=rng.random() < 0.3, parallel_p=0.7)
    for ty in rng.sample(['R1', 'R2', 'C1', 'C2', 'G1'], rng.randint(1, 2)):
        s['events'][ty] = {'timeout': rng.choice([1, 2, 3, 4, 6, 8])}
    for ops in s['drivers']:
        for op in ops:
            if op[0] == 'idle':
                op.append(2000)
    s['tag'] = 'timeout_par_rand'
    return s


FAMILIES = {
    'idle_forward_lock': ('sys', sys_idle_forward_lock),
    'redispatch_evict': ('sys', sys_redispatch_evict),
    'hist_nohandler': ('sys', sys_hist_nohandler),
    'fwd_idle': ('rand', gen_fwd_idle),
    'retry_handler': ('sys', sys_retry_handler),
    'idle_in_handler': ('sys', sys_idle_in_handler),
    'fwd_timeout': ('rand', gen_fwd_timeout),
    'par_held': ('sys', sys_par_held),
    'capacity_fwd': ('sys', sys_capacity_fwd),
    'gather_await': ('sys', sys_gather_await),
    'idle_target': ('sys', sys_idle_target),
    'stop_clear': ('sys', sys_stop_clear),
    'cancel_cleanup': ('sys', sys_cancel_cleanup),
    'hist_fwd': ('sys', sys_hist_fwd),
    'lock_wait': ('sys', sys_lock_wait),
    'await_after_stop': ('sys', sys_await_after_stop),
    'timeout_stray': ('sys', sys_timeout_stray),
    'late_on': ('sys', sys_late_on),
    'stop_in_handler': ('sys', sys_stop_in_handler),
    'idle_evict': ('sys', sys_idle_evict),
    'par_timeout': ('sys', sys_par_timeout),
    'timeout_par_rand': ('rand', gen_timeout_par),
    'fwd_deep': ('sys', sys_fwd_deep),
    'deep_timeout': ('sys', sys_deep_timeout),
    'wal': ('rand', gen_wal),
    'errors_par': ('sys', sys_errors_par),
    'retry_dispatch': ('sys', sys_retry_dispatch),
    'idle_par': ('sys', sys_idle_par),
    'redispatch': ('sys', sys_redispatch),
    'await_pos': ('sys', sys_await_positions),
    'fwd3': ('sys', sys_fwd3),
    'firstuse': ('sys', sys_firstuse),
    'recursion': ('sys', sys_recursion),
    'timeout': ('sys', sys_timeout),
    'hist': ('sys', sys_hist),
    'capacity': ('sys', sys_capacity),
    'life': ('sys', sys_life),
    'errors': ('sys', sys_errors),
    'nest': ('rand', gen_nest),
    'fwd': ('rand', gen_fwd),
    'timeout_rand': ('rand', gen_timeout),
    'hist_rand': ('rand', gen_hist),
    'life_rand': ('rand', gen_life),
    'expect': ('rand', gen_expect),
}


def _forms(s, k):
    """every few scenarios register their puppets as bound methods / classmethods / staticmethods instead of plain functions"""
    if k % 3 == 2:
        for j, h in enumerate(s['handlers']):
            if h.get('kind', 'async') != 'fwd' and 'form' not in h:
                h['form'] = ('method', 'classmethod', 'static', 'func')[(k // 3 + j) % 4]
    return s


def _created(s, k):
    """every few scenarios (without bounded histories, whose trimming is by age) create their events with decreasing creation times"""
    if k % 5 == 4 and 'created' not in s and not any(b.get('maxhist') for b in s['buses']):
        s['created'] = 'rev'
    return s


def _busorder(s, k):
    """the iteration order of EventBus.all_instances (which bus's queue an inline drain visits first) is part of the scenario"""
    if len(s.get('buses', [])) > 1 and 'busorder' not in s:
        s['busorder'] = 'rev' if k % 2 else 'fwd'
    return s


def generate(name, seed=0, count=None, stride=1):
    kind, fn = FAMILIES[name]
    if kind == 'sys':
        s = fn()
        s = [_created(_forms(_busorder(x, i + seed), i + seed), i + seed) for i, x in enumerate(s)]
        if stride > 1:
            s = s[seed % stride::stride]
        if count is not None and len(s) > count:
            step = len(s) / float(count)
            s = [s[int(i * step)] for i in range(count)]
        return s
    return [_created(_forms(_busorder(fn(seed * 1000003 + i), (seed * 1000003 + i) // 3), seed * 1000003 + i), seed * 1000003 + i) for i in range(count or 100)]
