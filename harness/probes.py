"""Internal probes (DESIGN.md 5.2): wrappers installed at run time around bubus internals.

Nothing in /repo changes: the wrappers are set as class attributes from here when BUBUS_VERIF=1 (the
guard recorded in MANIFEST.hooks) and they only *add* log lines / bookkeeping after the original
call returned or raised, in the same synchronous stretch (single thread: log order = effect order).
A missing internal name is reported as `probe_missing` (machinery problem), never as a verdict.
"""
import asyncio
import functools
import os

from . import engine
from .engine import S, M

ENABLED = os.environ.get('BUBUS_VERIF', '1') == '1'
_installed = False
_orig = {}


def _rec():
    return engine.REC


def _wrap(cls, name, maker):
    orig = getattr(cls, name, None)
    if orig is None:
        return False
    _orig[(cls, name)] = orig
    setattr(cls, name, maker(orig))
    return True


missing = []


def install():
    """Idempotent: install the wrappers once per process."""
    global _installed
    if _installed or not ENABLED:
        return
    _installed = True

    def mk_exec(orig):
        @functools.wraps(orig)
        async def execute_handler(self, event, handler, timeout=None):
            rec = _rec()
            if rec is not None:
                lab = rec.handler_label.get((id(self), id(handler)))
                if lab is not None:
                    # who runs this handler: in serial mode execute_handler runs in the task that called process_event; on a parallel bus it
                    # runs in a task of its own, so fall back to the innermost process_event still active for this (bus, event)
                    me = rec.task_label()
                    stack = rec.par_owner.get((self.name, rec.eid(event))) or ['?']
                    rec.exec_owner[(self.name, rec.eid(event), lab)] = me if me != 'X' else stack[-1]
                    if not (hasattr(handler, '__self__') and isinstance(handler.__self__, S.EventBus)) and '.expect(' not in getattr(handler, '__name__', ''):
                        # activations are numbered when execute_handler is entered (the model numbers them when the handler task is created)
                        rec.nact += 1
                        rec.pre_act[(self.name, rec.eid(event), lab)] = rec.nact
            return await orig(self, event, handler, timeout=timeout)
        return execute_handler

    if not _wrap(S.EventBus, 'execute_handler', mk_exec):
        missing.append('EventBus.execute_handler')

    def mk_proc(orig):
        @functools.wraps(orig)
        async def process_event(self, event, timeout=None):
            rec = _rec()
            if rec is None:
                return await orig(self, event, timeout=timeout)
            owner = rec.task_label()
            e = rec.eid(event)
            rec.par_owner.setdefault((self.name, e), []).append(owner)    # the same (bus, event) can be processed re-entrantly (re-dispatch)
            rec.log('ProcB', b=self.name, e=e, owner=owner, n=int(getattr(event, 'n', -1)))
            try:
                try:
                    r = await orig(self, event, timeout=timeout)
                finally:
                    st = rec.par_owner.get((self.name, e))
                    if st and owner in st:
                        st.reverse(); st.remove(owner); st.reverse()
            except asyncio.CancelledError:
                rec2 = _rec()
                if rec2 is rec:
                    rec.log('ProcX', b=self.name, e=e, owner=owner, exc='Cancelled')
                raise
            except BaseException as ex:
                rec2 = _rec()
                if rec2 is rec and not isinstance(ex, engine.vloop.LoopAbort):
                    rec.log('ProcX', b=self.name, e=e, owner=owner, exc=type(ex).__name__)
                raise
            if _rec() is rec:
                rec.log('ProcE', b=self.name, e=e, owner=owner)
            return r
        return process_event

    if not _wrap(S.EventBus, 'process_event', mk_proc):
        missing.append('EventBus.process_event')

    def mk_on(orig):
        @functools.wraps(orig)
        def on(self, event_pattern, handler):
            r = orig(self, event_pattern, handler)
            rec = _rec()
            if rec is not None and getattr(rec, 'cur_expect', None) and '.expect(' in getattr(handler, '__name__', ''):
                rec.handler_label[(id(self), id(handler))] = 'x%d' % rec.cur_expect
                rec.keep.append(handler)
            return r
        return on

    if not _wrap(S.EventBus, 'on', mk_on):
        missing.append('EventBus.on')

    def mk_wal(orig):
        @functools.wraps(orig)
        async def _default_wal_handler(self, event):
            rec = _rec()
            if rec is not None:
                rec.wal_cur[self.name] = rec.eid(event)
            return await orig(self, event)
        return _default_wal_handler

    if not _wrap(S.EventBus, '_default_wal_handler', mk_wal):
        missing.append('EventBus._default_wal_handler')


class _FakeWalFile:
    """in-process stand-in for anyio's AsyncFile: same suspension points (one hop per call), deterministic, with fault injection"""

    def __init__(self, rec, bus):
        self.rec, self.bus = rec, bus

    async def __aenter__(self):
        return self

    async def __aexit__(self, *a):
        await asyncio.sleep(0)
        return False

    async def write(self, text):
        await asyncio.sleep(0)
        rec = self.rec
        n = rec.wal_count[self.bus] = rec.wal_count.get(self.bus, 0)
        e = 0
        try:
            import json as _json
            e = rec.eid_of.get(_json.loads(text).get('event_id'), 0)
        except Exception:
            pass
        if 'write:%d' % rec.wal_opened[self.bus] in rec.wal_faults.get(self.bus, ()):
            if engine.REC is rec:
                rec.log('WalFault', b=self.bus, e=e, at='write')
            raise OSError(28, 'No space left on device (injected)')
        rec.wal_lines[self.bus].append(text)
        if engine.REC is rec:
            rec.log('Wal', b=self.bus, e=e)
        return len(text)


_real_open_file = None


async def _fake_open_file(path, mode='r', *a, **kw):
    rec = _rec()
    if rec is None:
        return await _real_open_file(path, mode, *a, **kw)
    bus = os.path.basename(str(path)).rsplit('.', 1)[0]
    await asyncio.sleep(0)
    rec.wal_opened[bus] = rec.wal_opened.get(bus, 0) + 1
    if 'open:%d' % rec.wal_opened[bus] in rec.wal_faults.get(bus, ()):
        if engine.REC is rec:
            rec.log('WalFault', b=bus, e=rec.wal_cur.get(bus, 0), at='open')
        raise PermissionError(13, 'Permission denied (injected)')
    return _FakeWalFile(rec, bus)


def _project(rec):
    lock = S._global_eventbus_lock
    sem = getattr(lock, '_semaphore', None) if lock is not None else None
    return {
        'unf': {n: (b.event_queue._unfinished_tasks if b.event_queue is not None else 0) for n, b in rec.buses.items()},
        'idle': {n: bool(b._on_idle is not None and b._on_idle.is_set()) for n, b in rec.buses.items()},
        'running': {n: bool(b._is_running) for n, b in rec.buses.items()},
        'semv': sem._value if sem is not None else 1,
        'depth': lock._depth if lock is not None else 0,
    }


def attach(rec):
    global _real_open_file
    rec.par_owner = {}
    rec.wal_opened = {}
    rec.wal_cur = {}
    rec.pre_act = {}
    if _real_open_file is None and hasattr(S, 'anyio'):
        _real_open_file = S.anyio.open_file
        S.anyio.open_file = _fake_open_file
    rec.probe_missing = list(missing)
    rec.extra = {'project': _project}
