"""Internal probes (DESIGN.md 5.2): wrappers installed at run time around bubus internals.

Nothing in /repo changes: the wrappers are set as class attributes from here when BUBUS_VERIF=1 (the
guard recorded in MANIFEST.hooks) and they only *add* log lines / bookkeeping after the original
call returned or raised, in the same synchronous stretch (single thread: log order = effect order).
A missing internal name is reported as `probe_missing` (machinery problem), never as a verdict.
"""
import asyncio
import functools
import os

from . import engine
from .engine import S, M

ENABLED = os.environ.get('BUBUS_VERIF', '1') == '1'
_installed = False
_orig = {}


def _rec():
    return engine.REC


def _wrap(cls, name, maker):
    orig = getattr(cls, name, None)
    if orig is None:
        return False
    _orig[(cls, name)] = orig
    setattr(cls, name, maker(orig))
    return True


missing = []


def install():
    """Idempotent: install the wrappers once per process."""
    global _installed
    if _installed or not ENABLED:
        return
    _installed = True

    def mk_exec(orig):
        @functools.wraps(orig)
        async def execute_handler(self, event, handler, timeout=None):
            rec = _rec()
            if rec is not None:
                lab = rec.handler_label.get((id(self), id(handler)))
                if lab is not None:
                    rec.exec_owner[(self.name, rec.eid(event), lab)] = rec.par_owner.get((self.name, rec.eid(event)), '?')
            return await orig(self, event, handler, timeout=timeout)
        return execute_handler

    if not _wrap(S.EventBus, 'execute_handler', mk_exec):
        missing.append('EventBus.execute_handler')

    def mk_proc(orig):
        @functools.wraps(orig)
        async def process_event(self, event, timeout=None):
            rec = _rec()
            if rec is None:
                return await orig(self, event, timeout=timeout)
            owner = rec.task_label()
            e = rec.eid(event)
            rec.par_owner[(self.name, e)] = owner
            rec.log('ProcB', b=self.name, e=e, owner=owner, n=int(getattr(event, 'n', -1)))
            try:
                r = await orig(self, event, timeout=timeout)
            except asyncio.CancelledError:
                rec2 = _rec()
                if rec2 is rec:
                    rec.log('ProcX', b=self.name, e=e, owner=owner, exc='Cancelled')
                raise
            except BaseException as ex:
                rec2 = _rec()
                if rec2 is rec and not isinstance(ex, engine.vloop.LoopAbort):
                    rec.log('ProcX', b=self.name, e=e, owner=owner, exc=type(ex).__name__)
                raise
            if _rec() is rec:
                rec.log('ProcE', b=self.name, e=e, owner=owner)
            return r
        return process_event

    if not _wrap(S.EventBus, 'process_event', mk_proc):
        missing.append('EventBus.process_event')


def _project(rec):
    lock = S._global_eventbus_lock
    sem = getattr(lock, '_semaphore', None) if lock is not None else None
    return {
        'unf': {n: (b.event_queue._unfinished_tasks if b.event_queue is not None else 0) for n, b in rec.buses.items()},
        'idle': {n: bool(b._on_idle is not None and b._on_idle.is_set()) for n, b in rec.buses.items()},
        'running': {n: bool(b._is_running) for n, b in rec.buses.items()},
        'semv': sem._value if sem is not None else 1,
        'depth': lock._depth if lock is not None else 0,
    }


def attach(rec):
    rec.par_owner = {}
    rec.probe_missing = list(missing)
    rec.extra = {'project': _project}
