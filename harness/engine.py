"""Scenario interpreter and trace recorder (DESIGN.md 5.2 / 5.3).

A scenario is a JSON document (see docs in families.py) describing buses, handlers (puppets driven by
per-event-type op scripts), forwarding edges and external driver scripts.  `execute(scn)` runs it against
the real bubus from /repo's working tree under the virtual-time loop and returns the recorded trace:
one line per observable step, each carrying the diff of the projected abstract state.

Observation is black-box for everything the property formulas read: puppet handlers and drivers log
their own steps, the public `dispatch` is observed by a subclass (`VBus`), and the projected state uses
public attributes only (event_status, event_results, event_path, event_parent_id, event_history, ...).
Internal probes (harness.probes) add the fields used for conformance (TraceImpl) and for classifying
known findings; they are wrappers installed at run time, nothing changes in /repo.
"""
import asyncio
import json
import logging
import os
import sys
import warnings
import weakref

warnings.simplefilter('ignore')
REPO = os.environ.get('BUBUS_REPO', '/repo')
if REPO not in sys.path:
    sys.path.insert(0, REPO)
os.environ.setdefault('BUBUS_LOGGING_LEVEL', 'CRITICAL')

import bubus.helpers as H  # noqa: E402
import bubus.models as M  # noqa: E402
import bubus.service as S  # noqa: E402
from bubus import BaseEvent, EventBus  # noqa: E402

from . import vloop  # noqa: E402

logging.disable(logging.CRITICAL)
H.PSUTIL_AVAILABLE = False  # psutil.cpu_percent(interval=0.1) blocks real time


import contextvars  # noqa: E402
_CUR_ACT = contextvars.ContextVar('verif_current_activation', default=0)


class PuppetError(Exception):
    """Raised by scripted handlers (`raise` op)."""


class PuppetError2(RuntimeError):
    pass


# variants of the `raise` op: ['raise'] PuppetError, ['raise', 'rt'] a RuntimeError, ['raise', 'ce'] asyncio.CancelledError raised by
# the handler's own code although nobody cancelled it (what a handler sees when something it awaits was cancelled by a third party)
_RAISES = {'rt': PuppetError2, 'ce': asyncio.CancelledError, 'to': TimeoutError}


_EVENT_CLASSES = {}


def event_class(name):
    c = _EVENT_CLASSES.get(name)
    if c is None:
        if name.startswith('W'):   # WAL payload events: declared, typed fields (extra fields are allowed too)
            import datetime as _dt
            from typing import Any as _Any
            c = type(name, (BaseEvent,), {'__module__': __name__, '__annotations__': {
                'n': int, 's': str, 'tags': list[str], 'nested': dict[str, _Any], 'when': _dt.datetime, 'opt': float | None},
                'n': 0, 's': '', 'tags': [], 'nested': {}, 'when': _dt.datetime(2020, 1, 2, 3, 4, 5, tzinfo=_dt.timezone.utc), 'opt': None})
        else:
            c = type(name, (BaseEvent,), {'__module__': __name__})
        _EVENT_CLASSES[name] = c
    return c


VALUES = {
    'none': lambda: None,
    'i1': lambda: 1,
    'i2': lambda: 2,
    's1': lambda: 'x',
    'd1': lambda: {'a': 1},
    'd2': lambda: {'a': 2},
    'd3': lambda: {'b': 3},
    'l1': lambda: [1],
    'l2': lambda: [2, 3],
    'exc': lambda: ValueError('returned-exception'),
    'exc_to': lambda: TimeoutError('returned-timeout-object'),      # e.g. `except TimeoutError as err: return err` around an inner wait_for
    'exc_ce': lambda: asyncio.CancelledError('returned-cancelled-object'),
}

RTYPES = {None: None, 'int': int, 'str': str, 'dict': dict, 'list': list}


class Rec:
    """Recorder + projection for one scenario execution."""

    def __init__(self, scn):
        self.scn = scn
        self.lines = []
        self.events = []  # event objects, eid = index + 1
        self.eid_of = {}  # event_id (uuid) -> eid
        self.ety = []
        self.buses = {}
        self.bus_by_id = {}
        self.handler_label = {}  # (id(bus), id(handler)) -> label
        self.nact = 0
        self.open = {}  # act -> dict
        self.calling = None  # set by puppets / drivers around their own dispatch calls
        self.exec_owner = {}  # (bus, eid, hid) -> owner label, filled by probes
        self.task_act = {}  # asyncio task -> stack of activation ids running in it
        self.prev_ev = {}
        self.prev_hist = {}
        self.prev_q = {}
        self.prev_reg = {}
        self.progress = 0
        self.sleepers = 0
        self.raised = {}  # tag -> exception object raised/returned by a puppet
        self.loop = None
        self.probe_missing = []
        self.extra = {}  # internal state projector installed by probes (lock, unfinished ...)
        self.prev_extra = None
        self.wal_faults = {}       # bus -> set of write indices (1-based) that fail, 'open:<n>' or 'write:<n>'
        self.wal_lines = {}        # bus -> [(eid or 0, raw line)]
        self.wal_count = {}
        self.keep = []  # strong references (ids must not be reused inside a scenario)

    # ---- identities -------------------------------------------------------------------------
    def new_event(self, ty, **kw):
        tdef = self.scn.get('events', {}).get(ty, {})
        args = {}
        tmo = tdef.get('timeout', None)
        args['event_timeout'] = None if tmo is None else tmo / 1000.0
        if tdef.get('rtype') is not None:
            args['event_result_type'] = RTYPES[tdef['rtype']]
        if tdef.get('payload') is not None:
            args.update(tdef['payload'])
        args.update(kw)
        if self.scn.get('created') == 'rev':
            # event objects whose creation times run against the order in which they are dispatched (objects built ahead of time, clock steps):
            # nothing in the properties depends on event_created_at
            import datetime as _dt
            self._created_base = getattr(self, '_created_base', None) or _dt.datetime.now(_dt.timezone.utc)
            args.setdefault('event_created_at', self._created_base - _dt.timedelta(milliseconds=len(self.events) + 1))
        ev = event_class(ty)(**args)
        self.events.append(ev)
        self.ety.append(ty)
        self.eid_of[ev.event_id] = len(self.events)
        return ev

    def eid(self, ev):
        if ev is None:
            return 0
        i = self.eid_of.get(ev.event_id)
        if i is None:  # an event object the scenario did not create (should not happen)
            self.events.append(ev)
            self.ety.append(ev.event_type)
            self.eid_of[ev.event_id] = i = len(self.events)
        return i

    def now(self):
        return self.loop.ms()

    def task_label(self):
        t = asyncio.current_task()
        for b in self.buses.values():
            if b._runloop_task is t:
                return 'RL:' + b.name
        st = self.task_act.get(t)
        if st:
            return 'A:%d' % st[-1]
        # a run loop that is no longer the bus's _runloop_task (stop() forgot it, or _start() replaced it while it was still alive: G3)
        co = t.get_coro() if t is not None else None
        if getattr(co, '__qualname__', '').endswith('EventBus._run_loop') and getattr(co, 'cr_frame', None) is not None:
            slf = co.cr_frame.f_locals.get('self')
            if self.bus_by_id.get(id(slf)) is slf:
                return 'RL:' + slf.name
        a = _CUR_ACT.get()
        if a and a in self.open:       # a helper task spawned by an activation that is still running
            return 'A:%d' % a
        return 'X'

    # ---- projection -------------------------------------------------------------------------
    def err_kind(self, err):
        if err is None:
            return ''
        for tag, ex in self.raised.items():
            if ex is err:
                return 'E:' + tag
        if isinstance(err, asyncio.CancelledError):
            msg = str(err)
            if msg.startswith('Cancelled pending handler'):
                return 'Cancelled:pending'
            if 'was interrupted because of a parent timeout' in msg:
                return 'Cancelled:interrupted'
            return 'Cancelled'
        if isinstance(err, TimeoutError):
            return 'Timeout'
        return 'X:' + type(err).__name__

    def val_kind(self, v):
        if v is None:
            return 'none'
        if isinstance(v, BaseEvent):
            return 'ev:%d' % self.eid(v)
        if isinstance(v, BaseException):
            return 'excobj'
        return json.dumps(v, sort_keys=True, default=str)

    def snap_event(self, ev):
        sig = ev._event_completed_signal
        res = []
        for hid_, r in ev.event_results.items():
            try:
                bid, fid = hid_.split('.')
                lab = self.handler_label.get((int(bid), int(fid)), '?')
            except ValueError:
                lab = '?'
            res.append({
                'h': lab,
                'b': r.eventbus_name,
                'st': r.status,
                'err': self.err_kind(r.error),
                'val': self.val_kind(r.result),
                'kids': [self.eid(c) for c in r.event_children],
            })
        pid = ev.event_parent_id
        return {
            'st': ev.event_status,
            'sig': bool(sig is not None and sig.is_set()),
            'par': 0 if pid is None else self.eid_of.get(pid, -1),
            'path': list(ev.event_path),
            'res': res,
        }

    def state_diff(self):
        evs = []
        for i, ev in enumerate(self.events):
            s = self.snap_event(ev)
            if self.prev_ev.get(i + 1) != s:
                self.prev_ev[i + 1] = s
                evs.append(dict(s, e=i + 1, ty=self.ety[i]))
        hist = []
        q = []
        reg = []
        for name, b in self.buses.items():
            h = [self.eid(e) for e in b.event_history.values()]
            if self.prev_hist.get(name) != h:
                self.prev_hist[name] = h
                hist.append([name, h])
            qq = [self.eid(e) for e in b.event_queue._queue] if b.event_queue is not None else []
            if self.prev_q.get(name) != qq:
                self.prev_q[name] = qq
                q.append([name, qq])
            n = sum(len(v) for v in b.handlers.values())
            if self.prev_reg.get(name) != n:
                self.prev_reg[name] = n
                reg.append([name, n])
        d = {'evs': evs, 'hist': hist, 'q': q, 'reg': reg}
        if self.extra:
            x = self.extra['project'](self)
            if x != self.prev_extra:
                d['xs'] = x
                self.prev_extra = x
        return d

    def log(self, a, **kw):
        if REC is not self:
            return None
        self.progress += 1
        line = {'a': a, 't': self.now(), 'tk': self.task_label()}
        line.update(kw)
        line.update(self.state_diff())
        self.lines.append(line)
        return line


REC = None  # the recorder of the scenario being executed (single thread, one scenario at a time)


class VBus(EventBus):
    """Public-API observation point: every dispatch call is recorded with its outcome."""

    def dispatch(self, event):
        rec = REC
        if rec is None or rec.bus_by_id.get(id(self)) is not self:
            # no recording, or a bus of an *earlier* scenario (a left-over coroutine being finalised): never log into another scenario's trace
            return super().dispatch(event)
        caller = rec.calling
        rec.calling = None
        xp = event.event_parent_id is not None
        xpe = rec.eid_of.get(event.event_parent_id, -1) if xp else 0
        try:
            r = super().dispatch(event)
        except BaseException as ex:
            out = classify_reject(ex)
            rec.log('Disp', b=self.name, e=rec.eid(event), ty=event.event_type, out=out, xp=xp, xpe=xpe, n=int(getattr(event, 'n', -1)),
                    act=caller[1] if caller and caller[0] == 'A' else 0,
                    drv=caller[1] if caller and caller[0] == 'D' else 0,
                    fw=caller is None, same=False)
            raise
        rec.log('Disp', b=self.name, e=rec.eid(event), ty=event.event_type, out='ok', xp=xp, xpe=xpe, n=int(getattr(event, 'n', -1)),
                act=caller[1] if caller and caller[0] == 'A' else 0,
                drv=caller[1] if caller and caller[0] == 'D' else 0,
                fw=caller is None, same=r is event)
        return r


def classify_reject(ex):
    if isinstance(ex, S.QueueShutDown):
        return 'rej_shutdown'
    if isinstance(ex, asyncio.QueueFull):
        return 'rej_full'
    if isinstance(ex, RuntimeError):
        m = str(ex)
        if 'capacity' in m:
            return 'rej_capacity'
        if 'no event loop' in m:
            return 'rej_noloop'
        return 'rej_runtime'
    return 'rej_' + type(ex).__name__


# ---------------------------------------------------------------------------------------------
# puppets
# ---------------------------------------------------------------------------------------------
def script_for(hdef, scn, ty):
    sc = scn['scripts'].get(hdef.get('script', ''), {})
    if ty in sc:
        return sc[ty]
    return sc.get('*', [])


def _enter(rec, hdef, bus, event, sync):
    e = rec.eid(event)
    act = getattr(rec, 'pre_act', {}).pop((bus.name, e, hdef['id']), None)
    if act is None:
        rec.nact += 1
        act = rec.nact
    t = asyncio.current_task()
    rec.task_act.setdefault(t, []).append(act)
    _CUR_ACT.set(act)        # inherited by helper tasks the handler spawns (asyncio.gather, TaskGroup ...): they run *as* this activation
    owner = rec.exec_owner.get((bus.name, e, hdef['id']), '?')
    try:
        rb = event.event_bus.name
    except BaseException as ex:  # noqa
        rb = '!' + type(ex).__name__
    tmo = event.event_timeout
    rec.open[act] = {'b': bus.name, 'e': e, 'h': hdef['id'], 't0': rec.now(),
                     'dl': None if tmo is None else rec.now() + int(round(tmo * 1000))}
    rec.log('HEnter', act=act, b=bus.name, e=e, h=hdef['id'], by=owner, rb=rb, sync=sync,
            tmo=-1 if tmo is None else int(round(tmo * 1000)))
    return act


def _exit(rec, act, out):
    if rec is not REC:
        return       # the scenario this activation belongs to is over (its coroutine is being finalised by the garbage collector)
    rec.open.pop(act, None)
    rec.log('HExit', act=act, out=out)
    try:
        t = asyncio.current_task()
    except RuntimeError:
        return
    st = rec.task_act.get(t)
    if st and st[-1] == act:
        st.pop()


def _do_dispatch(rec, who, bus, ev):
    rec.calling = who
    try:
        bus.dispatch(ev)
        return True
    except BaseException as ex:
        if isinstance(ex, (KeyboardInterrupt, SystemExit, vloop.LoopAbort)):
            raise
        return False
    finally:
        rec.calling = None


def make_sync_handler(rec, hdef, bus):
    scn = rec.scn

    def h(event):
        act = _enter(rec, hdef, bus, event, True)
        try:
            kids = []
            ret = None
            for op in script_for(hdef, scn, event.event_type):
                k = op[0]
                if k == 'd':
                    c = rec.new_event(op[2], **_opts(rec, op, kids))
                    kids.append(c if _do_dispatch(rec, ('A', act), rec.buses[op[1]], c) else None)
                elif k == 'rd':
                    _do_dispatch(rec, ('A', act), rec.buses[op[1]], event)
                elif k == 'rb':
                    _read_bus(rec, act, event)
                elif k == 'raise':
                    ex = _RAISES.get(op[1] if op[1:] else '', PuppetError)('raised by %s' % hdef['id'])
                    rec.raised['a%d' % act] = ex
                    if op[1:] and op[1] == 'chain':     # an exception with a __cause__ (raise ... from ...), itself raised while handling another one
                        try:
                            try:
                                raise KeyError('innermost')
                            except KeyError:
                                raise ValueError('inner cause')
                        except ValueError as inner:
                            raise ex from inner
                    raise ex
                elif k == 'ret':
                    ret = VALUES[op[1]]()
                    if isinstance(ret, BaseException):
                        rec.raised['a%d' % act] = ret
                    break
                else:
                    raise AssertionError('op %r not allowed in a sync handler' % (op,))
        except BaseException as ex:
            _exit(rec, act, 'raise' if isinstance(ex, Exception) or rec.raised.get('a%d' % act) is ex else 'cancel')
            raise
        _exit(rec, act, 'retexc' if isinstance(ret, BaseException) else 'ret')
        return ret

    h.__name__ = hdef['id']
    h.__qualname__ = hdef['id']
    return h


def _opts(rec, op, kids):
    kw = {}
    if len(op) > 3 and op[3]:
        o = op[3]
        if 'parent' in o:  # explicit parent: index of an earlier event created in the scenario (eid)
            kw['event_parent_id'] = rec.events[o['parent'] - 1].event_id
        if 'timeout' in o:
            kw['event_timeout'] = None if o['timeout'] is None else o['timeout'] / 1000.0
    return kw


def _read_bus(rec, act, event):
    try:
        rb = event.event_bus.name
    except BaseException as ex:  # noqa
        rb = '!' + type(ex).__name__
    rec.log('HReadBus', act=act, rb=rb)


async def _sleep(rec, ms):
    if ms <= 0:
        await asyncio.sleep(0)
        return
    rec.sleepers += 1
    try:
        await asyncio.sleep(ms / 1000.0)
    finally:
        rec.sleepers -= 1


def make_async_handler(rec, hdef, bus):
    scn = rec.scn

    async def h(event):
        act = _enter(rec, hdef, bus, event, False)
        ret = None
        cleanup = [0]
        try:
            kids = []
            for op in script_for(hdef, scn, event.event_type):
                k = op[0]
                if k == 'd':
                    c = rec.new_event(op[2], **_opts(rec, op, kids))
                    kids.append(c if _do_dispatch(rec, ('A', act), rec.buses[op[1]], c) else None)
                elif k == 'cl':      # from here on, a cancellation of this handler is followed by op[1] ms of awaited clean-up
                    cleanup[0] = op[1]
                    rec.log('HOp', act=act, op='cl')
                elif k == 'rd':
                    _do_dispatch(rec, ('A', act), rec.buses[op[1]], event)
                elif k == 'a':
                    if op[1] < len(kids) and kids[op[1]] is not None:
                        c = kids[op[1]]
                        rec.open[act]['aw'] = rec.eid(c)
                        rec.log('AwB', act=act, e=rec.eid(c))
                        try:
                            r = await c
                        except asyncio.CancelledError:
                            rec.open.get(act, {}).pop('aw', None)
                            rec.log('AwE', act=act, e=rec.eid(c), canc=True, same=True)
                            raise
                        rec.open[act].pop('aw', None)
                        rec.log('AwE', act=act, e=rec.eid(c), canc=False, same=r is c)
                elif k == 'ax':     # await an event this handler did not dispatch itself: the op[1]-th event created in the scenario
                    if 0 < op[1] <= len(rec.events):
                        c = rec.events[op[1] - 1]
                        rec.open[act]['aw'] = rec.eid(c)
                        rec.log('AwB', act=act, e=rec.eid(c), also=[])
                        try:
                            r = await c
                        except asyncio.CancelledError:
                            rec.open.get(act, {}).pop('aw', None)
                            rec.log('AwE', act=act, e=rec.eid(c), canc=True, same=True)
                            raise
                        rec.open[act].pop('aw', None)
                        rec.log('AwE', act=act, e=rec.eid(c), canc=False, same=r is c)
                elif k == 'ga':     # await several children through helper tasks: asyncio.gather / TaskGroup style (['ga', how, k1, k2, ...])
                    cs = [kids[j] for j in op[2:] if j < len(kids) and kids[j] is not None]
                    if cs:
                        first = cs[0]
                        rec.open[act]['aw'] = rec.eid(first)
                        rec.log('AwB', act=act, e=rec.eid(first), also=[rec.eid(c) for c in cs[1:]])
                        try:
                            if op[1] == 'tg':
                                async def _one(c):
                                    return await c
                                async with asyncio.TaskGroup() as tg:
                                    ts = [tg.create_task(_one(c)) for c in cs]
                                rs = [t.result() for t in ts]
                            elif op[1] == 'ef':
                                fs = [asyncio.ensure_future(c) for c in cs]
                                rs = [await f for f in fs]
                            else:
                                rs = await asyncio.gather(*cs)
                        except asyncio.CancelledError:
                            rec.open.get(act, {}).pop('aw', None)
                            rec.log('AwE', act=act, e=rec.eid(first), canc=True, same=True)
                            raise
                        rec.open[act].pop('aw', None)
                        rec.log('AwE', act=act, e=rec.eid(first), canc=False, same=rs[0] is first)
                        for c, r in zip(cs[1:], rs[1:]):     # the other children must be just as complete when the gather returns
                            rec.log('AwB', act=act, e=rec.eid(c))
                            rec.log('AwE', act=act, e=rec.eid(c), canc=False, same=r is c)
                elif k == 'y':
                    for _ in range(op[1] if len(op) > 1 else 1):
                        await asyncio.sleep(0)
                        rec.log('HOp', act=act, op='y')
                elif k == 's':
                    await _sleep(rec, op[1])
                    rec.log('HOp', act=act, op='s')
                elif k == 'g':  # gate: yield until the trace has at least op[1] lines (spec->code alignment)
                    await asyncio.sleep(0)
                    for _ in range(300):
                        if len(rec.lines) >= op[1]:
                            break
                        await asyncio.sleep(0)
                elif k == 'logop':
                    rec.log('HOp', act=act, op=op[1])
                elif k == 'idle':  # wait_until_idle(timeout) on another bus from inside a handler (always with a timeout)
                    rec.sleepers += 1
                    try:
                        await rec.buses[op[1]].wait_until_idle(timeout=op[2] / 1000.0)
                    finally:
                        rec.sleepers -= 1
                    rec.log('HOp', act=act, op='idle')
                elif k == 'rb':
                    _read_bus(rec, act, event)
                elif k == 'stop':   # bus.stop() called from inside a handler (the caller id of the StopB/StopE lines is 1000 + activation)
                    sb = rec.buses[op[1]]
                    rec.log('StopB', d=1000 + act, b=sb.name, tmo=-1, running=bool(sb._is_running))
                    sexc = ''
                    rec.sleepers += 1
                    try:
                        await sb.stop()
                    except asyncio.CancelledError:
                        raise
                    except BaseException as ex:  # noqa
                        if isinstance(ex, (vloop.LoopAbort, GeneratorExit, KeyboardInterrupt, SystemExit)):
                            raise
                        sexc = type(ex).__name__
                    finally:
                        rec.sleepers -= 1
                    rec.log('StopE', d=1000 + act, b=sb.name, exc=sexc)
                elif k == 'raise':
                    ex = _RAISES.get(op[1] if op[1:] else '', PuppetError)('raised by %s' % hdef['id'])
                    rec.raised['a%d' % act] = ex
                    if op[1:] and op[1] == 'chain':     # an exception with a __cause__ (raise ... from ...), itself raised while handling another one
                        try:
                            try:
                                raise KeyError('innermost')
                            except KeyError:
                                raise ValueError('inner cause')
                        except ValueError as inner:
                            raise ex from inner
                    raise ex
                elif k == 'ret':
                    ret = VALUES[op[1]]()
                    if isinstance(ret, BaseException):
                        rec.raised['a%d' % act] = ret
                    break
                else:
                    raise AssertionError('unknown op %r' % (op,))
        except asyncio.CancelledError as ex:
            if cleanup[0] and rec.raised.get('a%d' % act) is not ex:
                # a handler with asynchronous clean-up (try / finally with awaits): it goes on for a while after it was cancelled
                rec.log('HOp', act=act, op='cleanup')
                await _sleep(rec, cleanup[0])
            _exit(rec, act, 'raise' if rec.raised.get('a%d' % act) is ex else 'cancel')
            raise
        except vloop.LoopAbort:
            raise
        except BaseException:
            _exit(rec, act, 'raise')
            raise
        _exit(rec, act, 'retexc' if isinstance(ret, BaseException) else 'ret')
        return ret

    h.__name__ = hdef['id']
    h.__qualname__ = hdef['id']
    return h


def _as_member(fn, hid, form, is_sync):
    """the same puppet registered as a bound method, a classmethod or a staticmethod of a throw-away class (the forms bus.on() accepts)"""
    if is_sync:
        def m(self_or_cls, event):
            return fn(event)

        def st(event):
            return fn(event)
    else:
        async def m(self_or_cls, event):
            return await fn(event)

        async def st(event):
            return await fn(event)
    m.__name__ = m.__qualname__ = hid
    st.__name__ = st.__qualname__ = hid
    if form == 'method':
        cls = type('Puppet_' + hid, (), {hid: m})
        return getattr(cls(), hid)
    if form == 'classmethod':
        cls = type('Puppet_' + hid, (), {hid: classmethod(m)})
        return getattr(cls, hid)
    cls = type('Puppet_' + hid, (), {hid: staticmethod(st)})
    return getattr(cls, hid)


# ---------------------------------------------------------------------------------------------
# drivers
# ---------------------------------------------------------------------------------------------
FILTERS = {
    'any': lambda e: True,
    'none': lambda e: False,
    'odd': lambda e: getattr(e, 'n', 0) % 2 == 1,
    'even': lambda e: getattr(e, 'n', 0) % 2 == 0,
    'big': lambda e: getattr(e, 'n', 0) >= 2,
}


def _raising_filter(e):
    raise PuppetError('predicate raised')


FILTERS['boom'] = _raising_filter


async def driver(rec, i, ops, state):
    roots = state.setdefault('roots', {}).setdefault(i, [])
    for op in ops:
        k = op[0]
        state['at'][i] = op
        if k == 'd':
            kw = _opts(rec, op, roots)
            if len(op) > 4:
                kw.update(op[4])
            c = rec.new_event(op[2], **kw)
            roots.append(c)
            if not _do_dispatch(rec, ('D', i), rec.buses[op[1]], c):
                state.setdefault('rejected', set()).add(id(c))
        elif k == 'rd':  # dispatch an existing root again (same object)
            if _do_dispatch(rec, ('D', i), rec.buses[op[1]], roots[op[2]]):
                state.setdefault('rejected', set()).discard(id(roots[op[2]]))
        elif k == 'a':
            c = roots[op[1]]
            if id(c) in state.get('rejected', ()):
                continue
            rec.log('XAwB', d=i, e=rec.eid(c))
            exc = ''
            r = None
            try:
                r = await c
            except asyncio.CancelledError:
                raise
            except BaseException as ex:  # noqa
                if isinstance(ex, (vloop.LoopAbort, GeneratorExit, KeyboardInterrupt, SystemExit)):
                    raise
                exc = type(ex).__name__
            rec.log('XAwE', d=i, e=rec.eid(c), same=r is c, exc=exc)
        elif k == 'y':
            for _ in range(op[1] if len(op) > 1 else 1):
                await asyncio.sleep(0)
        elif k == 's':
            await _sleep(rec, op[1])
        elif k == 'g':
            for _ in range(300):
                if len(rec.lines) >= op[1]:
                    break
                await asyncio.sleep(0)
        elif k == 'idle':
            b = rec.buses[op[1]]
            tmo = op[2] if len(op) > 2 else None
            rec.log('IdleB', d=i, b=b.name, tmo=-1 if tmo is None else tmo)
            exc = ''
            if tmo is not None:
                rec.sleepers += 1
            try:
                await b.wait_until_idle(timeout=None if tmo is None else tmo / 1000.0)
            except asyncio.CancelledError:
                raise
            except BaseException as ex:  # noqa
                if isinstance(ex, (vloop.LoopAbort, GeneratorExit, KeyboardInterrupt, SystemExit)):
                    raise
                exc = type(ex).__name__
            finally:
                if tmo is not None:
                    rec.sleepers -= 1
            rec.log('IdleE', d=i, b=b.name, exc=exc, qn=b.event_queue.qsize() if b.event_queue else 0)
        elif k == 'stop':
            b = rec.buses[op[1]]
            tmo = op[2] if len(op) > 2 else None
            clear = bool(op[3]) if len(op) > 3 else False
            rec.log('StopB', d=i, b=b.name, tmo=-1 if tmo is None else tmo, running=bool(b._is_running))
            exc = ''
            rec.sleepers += 1
            try:
                await b.stop(timeout=None if tmo is None else tmo / 1000.0, clear=clear)
            except asyncio.CancelledError:
                raise
            except BaseException as ex:  # noqa
                if isinstance(ex, (vloop.LoopAbort, GeneratorExit, KeyboardInterrupt, SystemExit)):
                    raise
                exc = type(ex).__name__
            finally:
                rec.sleepers -= 1
            rec.log('StopE', d=i, b=b.name, exc=exc)
        elif k == 'crl':  # cancel the bus's background task, as asyncio.run() does at exit
            b = rec.buses[op[1]]
            t = b._runloop_task
            state.setdefault('crl', {})[b.name] = t
            if t is not None:
                t.cancel()
            rec.log('CancelRL', d=i, b=b.name, had=t is not None)
        elif k == 'expect':
            b = rec.buses[op[1]]
            ty, inc, exc_f, tmo = op[2], op[3], op[4], op[5]
            usepred = len(op) > 6 and op[6]
            xid = state['nexp'] = state.get('nexp', 0) + 1
            # sub: will the call get as far as registering its temporary handler?  (not when it is cancelled before its first step)
            rec.log('ExpB', d=i, x=xid, b=b.name, ty=ty, inc=inc, exc=exc_f, tmo=-1 if tmo is None else tmo, sub=not (len(op) > 7 and op[7]))
            rec.cur_expect = xid
            got = None
            err = ''
            if tmo is not None:
                rec.sleepers += 1
            try:
                kw = {'exclude': FILTERS[exc_f], 'timeout': None if tmo is None else tmo / 1000.0}
                if usepred:
                    kw['predicate'] = FILTERS[inc]
                else:
                    kw['include'] = FILTERS[inc]
                mode = op[7] if len(op) > 7 else ''
                if mode == 'task0':      # the call is wrapped in a task that is cancelled before its first step
                    t0 = asyncio.ensure_future(b.expect(ty, **kw))
                    t0.cancel()
                    try:
                        await t0
                    except asyncio.CancelledError:
                        if asyncio.current_task().cancelling():
                            raise
                        err = 'Cancelled'
                elif mode == 'wf0':      # asyncio.wait_for(bus.expect(...), timeout=0): cancelled by the caller's own deadline at once
                    try:
                        await asyncio.wait_for(b.expect(ty, **kw), timeout=0)
                    except TimeoutError:
                        err = 'Cancelled'
                else:
                    got = await b.expect(ty, **kw)
            except asyncio.CancelledError:
                rec.log('ExpE', d=i, x=xid, b=b.name, e=0, err='Cancelled')
                raise
            except BaseException as ex:  # noqa
                if isinstance(ex, (vloop.LoopAbort, GeneratorExit, KeyboardInterrupt, SystemExit)):
                    raise
                err = 'Timeout' if isinstance(ex, TimeoutError) else type(ex).__name__
            finally:
                if tmo is not None:
                    rec.sleepers -= 1
            if err == 'Cancelled':
                await asyncio.sleep(0)      # let the cancelled call unwind (its finally removes the subscription)
            rec.log('ExpE', d=i, x=xid, b=b.name, e=rec.eid(got) if got is not None else 0, err=err)
        elif k == 'on':  # bus.on(pattern, handler) at run time for a handler the scenario declares `late`
            hd = next(h for h in rec.scn['handlers'] if h['id'] == op[1])
            xid = state['nexp'] = state.get('nexp', 0) + 1     # run-time registrations (expect temporaries and late handlers) share one numbering
            rec.buses[hd['bus']].on(hd['pat'], hd['_fn'])
            rec.log('Reg', d=i, x=xid, b=hd['bus'], h=hd['id'], pat=hd['pat'])
        elif k == 'cancel':  # cancel another driver task
            t = state['tasks'].get(op[1])
            if t is not None and not t.done():
                t.cancel()
            rec.log('CancelDrv', d=i, target=op[1])
        elif k == 'acc':  # result accessor on a root: ['acc', k, name, flags]
            c = roots[op[1]]
            name, flags = op[2], op[3]
            out = await call_accessor(rec, c, name, flags)
            rec.log('Acc', d=i, e=rec.eid(c), name=name, flags=flags, out=out)
        else:
            raise AssertionError('unknown driver op %r' % (op,))
    state['at'][i] = None


async def call_accessor(rec, ev, name, flags):
    kw = {}
    for f in ('raise_if_any', 'raise_if_none', 'raise_if_conflicts'):
        if f in flags:
            kw[f] = flags[f]
    try:
        v = await getattr(ev, name)(timeout=5, **kw)
        return {'k': 'ok', 'v': json.dumps(v, sort_keys=True, default=str)}
    except asyncio.CancelledError:
        raise
    except BaseException as ex:  # noqa
        if isinstance(ex, (vloop.LoopAbort, GeneratorExit, KeyboardInterrupt, SystemExit)):
            raise
        return {'k': 'raise', 'v': rec.err_kind(ex)}


# ---------------------------------------------------------------------------------------------
# scenario execution
# ---------------------------------------------------------------------------------------------
class OrderedBusSet:
    """Stand-in for EventBus.all_instances (a WeakSet): same interface, weak references, but a *deterministic* iteration order
    (creation order, or its reverse).  The library iterates this set in the inline drain of BaseEvent.__await__, so the order in
    which an awaiting handler visits the queues of several buses depended on object addresses: the same scenario gave different
    schedules from run to run.  The order is now part of the scenario (`busorder`: 'fwd' | 'rev'), both are explored."""

    def __init__(self, reverse=False):
        self._d = {}
        self.reverse = reverse

    def add(self, x):
        k = id(x)
        if k not in self._d or self._d[k]() is not x:
            self._d[k] = weakref.ref(x, lambda r, k=k, d=self._d: d.pop(k, None) if d.get(k) is r else None)

    def discard(self, x):
        r = self._d.get(id(x))
        if r is not None and r() is x:
            del self._d[id(x)]

    def remove(self, x):
        if x not in self:
            raise KeyError(x)
        self.discard(x)

    def clear(self):
        self._d.clear()

    def __contains__(self, x):
        r = self._d.get(id(x))
        return r is not None and r() is x

    def _items(self):
        xs = [r() for r in list(self._d.values())]
        xs = [x for x in xs if x is not None]
        return list(reversed(xs)) if self.reverse else xs

    def __iter__(self):
        return iter(self._items())

    def __len__(self):
        return len(self._items())


def reset_globals(busorder='fwd'):
    EventBus.all_instances = OrderedBusSet(reverse=(busorder == 'rev'))
    S._global_eventbus_lock = None
    H.GLOBAL_RETRY_SEMAPHORES.clear()


async def _main(rec, scn, probes):
    global REC
    rec.loop = asyncio.get_running_loop()
    for bd in scn['buses']:
        kw = {}
        if bd.get('wal'):
            kw['wal_path'] = os.path.join(os.environ.get('VERIF_WORK', '/verif/.work'), 'wal', bd['name'] + '.jsonl')
            rec.wal_faults[bd['name']] = set(bd.get('wal_faults') or [])
            rec.wal_lines[bd['name']] = []
        b = VBus(name=bd['name'], parallel_handlers=bool(bd.get('parallel')),
                 max_history_size=bd.get('maxhist'), **kw)
        rec.buses[b.name] = b
        rec.bus_by_id[id(b)] = b
    for hd in scn['handlers']:
        b = rec.buses[hd['bus']]
        kind = hd.get('kind', 'async')
        if kind == 'fwd':
            fn = rec.buses[hd['to']].dispatch
            rec.keep.append(fn)
        elif kind == 'sync':
            fn = make_sync_handler(rec, hd, b)
        else:
            fn = make_async_handler(rec, hd, b)
        if kind == 'async' and hd.get('retry'):
            # the handler is decorated with @retry (per-attempt timeout longer than the event's): cancellation by the bus has to go through it
            name = fn.__name__
            fn = H.retry(wait=0, retries=int(hd['retry'].get('retries', 0)), timeout=hd['retry']['timeout'] / 1000.0)(fn)
            fn.__name__ = fn.__qualname__ = name
        if kind != 'fwd' and hd.get('form', 'func') != 'func':
            fn = _as_member(fn, hd['id'], hd['form'], kind == 'sync')
        rec.keep.append(fn)
        rec.handler_label[(id(b), id(fn))] = hd['id']
        if kind == 'fwd':
            rec.handler_label[(id(b), id(fn))] = hd['id']
        if not hd.get('late'):        # late handlers are registered at run time by a driver (op `on`)
            b.on(hd['pat'], fn)
        hd['_fn'] = fn
    if probes is not None:
        probes.attach(rec)
    rec.log('Init')
    state = {'at': {}, 'tasks': {}}
    for i, ops in enumerate(scn['drivers'], start=1):
        state['tasks'][i] = asyncio.create_task(driver(rec, i, ops, state), name='D%d' % i)
    horizon = scn.get('horizon', 20000) / 1000.0
    last = -1
    while True:
        await asyncio.sleep(0.25)
        now_ms = rec.now()
        busy = rec.sleepers > 0 or any(a.get('dl') is not None and a['dl'] + 200 >= now_ms for a in rec.open.values())
        if rec.progress == last and not busy:
            break
        last = rec.progress
        if rec.loop.time() > horizon:
            break
    blocked = []
    for i, t in state['tasks'].items():
        if not t.done():
            op = state['at'].get(i)
            blocked.append({'d': i, 'op': op[0] if op else '?'})
    failed = []
    for i, t in state['tasks'].items():
        if t.done() and not t.cancelled() and t.exception() is not None:
            failed.append('D%d:%r' % (i, t.exception()))
    rec.log('End', blocked=blocked, open=sorted(rec.open), abort='', failed=failed, wal=wal_summary(rec),
            running=[b.name for b in rec.buses.values() if b._is_running],
            rldone=[b.name for b in rec.buses.values() if b._runloop_task is None or b._runloop_task.done()],
            crldone=[n for n, t in state.get('crl', {}).items() if t is None or t.done()])
    # teardown (not part of the trace)
    REC = None
    for t in state['tasks'].values():
        t.cancel()
    for b in rec.buses.values():
        try:
            b._is_running = False
            if b.event_queue:
                b.event_queue.shutdown()
            if b._runloop_task:
                b._runloop_task.cancel()
        except BaseException:
            pass


def wal_summary(rec):
    """decode every WAL line back into an event and compare it with the original object (the fidelity oracle of C17)"""
    out = []
    for bname, lines in rec.wal_lines.items():
        items = []
        for raw in lines:
            e, ok = 0, False
            try:
                d = json.loads(raw)
                e = rec.eid_of.get(d.get('event_id'), 0)
                if e and raw.endswith('\n') and raw.count('\n') == 1:
                    orig = rec.events[e - 1]
                    back = type(orig).model_validate_json(raw)
                    a = orig.model_dump(exclude={'event_results', 'event_path', 'event_processed_at'})
                    b = back.model_dump(exclude={'event_results', 'event_path', 'event_processed_at'})
                    path_ok = bname in back.event_path and list(orig.event_path)[:len(back.event_path)] == list(back.event_path)
                    ok = a == b and path_ok and back.event_id == orig.event_id and back.event_type == orig.event_type \
                        and back.event_parent_id == orig.event_parent_id
            except Exception:
                ok = False
            items.append([e, ok])
        out.append([bname, items])
    return out


_PREV_ABORT = False


def execute(scn, probes=None):
    """Run one scenario; returns the trace dict {'scn':..., 'lines': [...], 'abort': kind|None}."""
    global REC, _PREV_ABORT
    if _PREV_ABORT:
        # the previous scenario in this worker was aborted (deadlock / livelock / horizon): its unfinished coroutines are finalised by the
        # garbage collector at some later point and run their `finally` blocks then - make that happen now, before this scenario starts
        import gc
        REC = None
        gc.collect()
        gc.collect()
        _PREV_ABORT = False
    reset_globals(scn.get('busorder', 'fwd'))
    for hd in scn['handlers']:
        hd.pop('_fn', None)
    rec = Rec(scn)
    REC = rec
    if probes is not None:
        probes.install()
    try:
        _, abort = vloop.run(lambda: _main(rec, scn, probes), horizon=scn.get('horizon', 20000) / 1000.0 + 5.0,
                             max_frozen=scn.get('max_frozen', 20000))
    finally:
        REC = None
    if abort is not None:
        _PREV_ABORT = True
        rec.lines.append({'a': 'End', 't': rec.lines[-1]['t'] if rec.lines else 0, 'tk': 'X', 'blocked': [], 'open': sorted(rec.open), 'wal': [],
                          'abort': abort, 'failed': [], 'running': [], 'rldone': [], 'crldone': [],
                          'evs': [], 'hist': [], 'q': [], 'reg': []})
    for hd in scn['handlers']:
        hd.pop('_fn', None)
    end = rec.lines[-1] if rec.lines else {}
    if end.get('blocked') or end.get('open'):
        _PREV_ABORT = True       # suspended coroutines are left behind: finalise them before the next scenario of this process starts
    return {'scn': scn, 'lines': rec.lines, 'abort': abort, 'probe_missing': rec.probe_missing}
