"""Model-level part of a check: exhaustive TLC runs of spec/Bubus.tla on the property's bounded configurations.

The model does not depend on /repo, so results are cached by the hash of the specification files (cache under .work/, rebuilt
whenever a spec or cfg changes).  What ties the model to the code is the conformance step (TraceImpl, harness/tlc.validate_impl),
run by harness/check.py on the traces recorded from /repo's working tree in the same check.
"""
import hashlib
import json
import os
import re
import shutil
import time

from harness import tlc

SPEC = tlc.SPEC

# property -> tier -> [(module, cfg)]
CORE = [('MC_core.tla', 'MC_core.cfg')]
PLAN = {
    'C01': {'quick': CORE + [('MC_late.tla', 'MC_late.cfg')], 'thorough': [('MC_core.tla', 'MC_core_big.cfg'), ('MC_core.tla', 'MC_err.cfg'), ('MC_late.tla', 'MC_late.cfg'), ('MC_redisp.tla', 'MC_redisp.cfg')]},
    'C02': {'quick': CORE, 'thorough': [('MC_core.tla', 'MC_core_big.cfg'), ('MC_core.tla', 'MC_g1.cfg')]},
    'C03': {'quick': CORE + [('MC_hist.tla', 'MC_hist.cfg'), ('MC_core.tla', 'MC_live.cfg')], 'thorough': [('MC_core.tla', 'MC_live2.cfg'), ('MC_core.tla', 'MC_core_big.cfg'), ('MC_hist.tla', 'MC_hist.cfg'), ('MC_core.tla', 'MC_rec.cfg')]},
    'C04': {'quick': CORE + [('MC_core.tla', 'MC_live.cfg')], 'thorough': [('MC_core.tla', 'MC_core_big.cfg'), ('MC_core.tla', 'MC_live2.cfg')]},
    'C05': {'quick': CORE, 'thorough': [('MC_core.tla', 'MC_core_big.cfg'), ('MC_par.tla', 'MC_par.cfg')]},
    'C06': {'quick': CORE, 'thorough': [('MC_core.tla', 'MC_core_big.cfg'), ('MC_par.tla', 'MC_par.cfg'), ('MC_partime.tla', 'MC_partime.cfg')]},
    'C07': {'quick': [('MC_fwd.tla', 'MC_fwd.cfg')], 'thorough': [('MC_fwd.tla', 'MC_fwd.cfg'), ('MC_fwd.tla', 'MC_live_fwd.cfg')]},
    'C08': {'quick': [('MC_fwd.tla', 'MC_fwd.cfg')], 'thorough': [('MC_fwd.tla', 'MC_fwd.cfg')]},
    'C09': {'quick': CORE, 'thorough': [('MC_core.tla', 'MC_core_big.cfg'), ('MC_fwd.tla', 'MC_fwd.cfg'), ('MC_par.tla', 'MC_par.cfg')]},
    'C10': {'quick': [('MC_core.tla', 'MC_time.cfg'), ('MC_partime.tla', 'MC_partime_s.cfg'), ('MC_core.tla', 'MC_live_time.cfg')],
            'thorough': [('MC_core.tla', 'MC_time.cfg'), ('MC_core.tla', 'MC_time_big.cfg'), ('MC_partime.tla', 'MC_partime_s.cfg'), ('MC_partime.tla', 'MC_partime.cfg'),
                         ('MC_core.tla', 'MC_live_time.cfg'), ('MC_partime.tla', 'MC_live_partime.cfg')]},
    'C11': {'quick': [('MC_core.tla', 'MC_err.cfg')], 'thorough': [('MC_core.tla', 'MC_err.cfg')]},
    'C13': {'quick': [('MC_hist.tla', 'MC_hist.cfg')], 'thorough': [('MC_hist.tla', 'MC_hist.cfg'), ('MC_hist.tla', 'MC_hist_big.cfg')]},
    'C14': {'quick': [('MC_hist.tla', 'MC_hist.cfg')], 'thorough': [('MC_hist.tla', 'MC_hist.cfg'), ('MC_hist.tla', 'MC_hist_big.cfg')]},
    'C16': {'quick': [('MC_core.tla', 'MC_stop_s.cfg'), ('MC_stopt.tla', 'MC_stopt.cfg'), ('MC_core.tla', 'MC_live_stop.cfg')],
            'thorough': [('MC_core.tla', 'MC_stop_s.cfg'), ('MC_core.tla', 'MC_stop.cfg'), ('MC_stopt.tla', 'MC_stopt.cfg'), ('MC_core.tla', 'MC_live_stop.cfg'), ('MC_stopt.tla', 'MC_live_stopt.cfg')]},
    'C18': {'quick': [('MC_one.tla', 'MC_expect_s.cfg')], 'thorough': [('MC_one.tla', 'MC_expect.cfg')]},
    'C17': {'quick': [('MC_wal.tla', 'MC_wal.cfg')], 'thorough': [('MC_wal.tla', 'MC_wal.cfg')]},
    'C15': {'quick': [('MC_core.tla', 'MC_idle.cfg')], 'thorough': [('MC_core.tla', 'MC_idle.cfg'), ('MC_core.tla', 'MC_idle_big.cfg')]},
}


# vacuity guard: actions that a configuration exists to exercise; checked whenever a run was made with -coverage
REQUIRED = {
    'MC_time.cfg': ['TimeoutFire', 'OwnerAbandon', 'HCancelAw', 'HCancelExit'],
    'MC_partime_s.cfg': ['TimeoutFire', 'ParStart', 'PCancelWake', 'XAbandon', 'OwnerAbandon'],
    'MC_late.cfg': ['DRegister'],
    'MC_stop_s.cfg': ['DStopGo', 'DStopWaitEnd', 'DCancelRL', 'HStopBegin', 'HStopWaitEnd'],
    'MC_stop.cfg': ['DStopGo', 'DStopWaitEnd', 'DCancelRL', 'HStopBegin', 'HStopWaitEnd'],
    'MC_stopt.cfg': ['DStopBeginT', 'DStopBody', 'DIdleTimeout', 'DStopWaitEnd'],
    'MC_wal.cfg': ['WalWrite', 'WalOpen'],
    'MC_expect_s.cfg': ['DExpectBegin', 'DExpectEnd'],
    'MC_expect.cfg': ['DExpectBegin', 'DExpectEnd'],
    'MC_hist.cfg': ['OwnerTail'],
    'MC_err.cfg': ['HFinish'],
    'MC_idle.cfg': ['DIdleBegin', 'DIdleRecheck'],
}


def spec_hash(extra=''):
    h = hashlib.sha1()
    for f in sorted(os.listdir(SPEC)):
        if f.endswith('.tla') or f.endswith('.cfg'):
            h.update(f.encode())
            h.update(open(os.path.join(SPEC, f), 'rb').read())
    h.update(extra.encode())
    return h.hexdigest()[:16]


def action_counts(out, module='Bubus'):
    """Per-action success counts from TLC's -coverage output.  Next is one wrapped disjunction, so TLC reports a single <Next>; the count
    of an action is taken from the *last* covered line inside its definition (its final conjunct, usually the UNCHANGED: evaluated only
    when every guard before it held)."""
    src = open(os.path.join(SPEC, module + '.tla')).read().splitlines()
    defs = []   # (name, first line, last line)
    for i, line in enumerate(src, start=1):
        m = re.match(r'^(\w+)(\([^)]*\))? ==', line)
        if m:
            if defs:
                defs[-1][2] = i - 1
            defs.append([m.group(1), i, len(src)])
    cov = {}
    for m in re.finditer(r'line (\d+), col \d+ to line (\d+), col \d+ of module %s: (\d+)' % module, out):
        ln = int(m.group(1))
        cov[ln] = max(cov.get(ln, 0), int(m.group(3)))
    res = {}
    for name, a, b in defs:
        lines = [l for l in cov if a <= l <= b]
        if lines:
            res[name] = cov[max(lines)]
    return res


def run_config(module, cfg, coverage=False, timeout=3000, workers=16):
    cache_dir = os.environ.get('VERIF_MC_CACHE', os.path.join(tlc.VERIF, '.work', 'mc-cache'))
    os.makedirs(cache_dir, exist_ok=True)
    key = spec_hash(module + cfg + str(coverage))
    cf = os.path.join(cache_dir, '%s-%s.json' % (cfg.replace('.cfg', ''), key))
    if os.path.exists(cf):
        r = json.load(open(cf))
        r['cached'] = True
        return r
    extra = ['-coverage', '1'] if coverage else []
    out, rc, wall = tlc.run_tlc(module, cfg, workers=workers, extra=extra, timeout=timeout, heap='8g')
    gen, dist = tlc.stats(out)
    ok = 'Model checking completed. No error has been found.' in out
    r = {'module': module, 'cfg': cfg, 'ok': ok, 'rc': rc, 'states': dist, 'transitions': gen, 'wall_s': round(wall, 1), 'cached': False,
         'depth': int((re.search(r'depth of the complete state graph search is (\d+)', out) or [0, 0])[1])}
    if not ok:
        r['tail'] = '\n'.join(out.splitlines()[-60:])
        m = re.search(r'Invariant (\w+) is violated', out)
        r['violated'] = m.group(1) if m else None
    if coverage:
        r['action_counts'] = action_counts(out)
    if ok:
        json.dump(r, open(cf, 'w'))
    return r


def run_for(prop, tier, seed):
    if prop not in PLAN:
        return None
    t0 = time.time()
    res = {'configs': [], 'states': 0, 'transitions': 0, 'messages': [], 'violation': False, 'machinery_failure': False}
    for module, cfg in PLAN[prop][tier]:
        if not os.path.exists(os.path.join(SPEC, cfg)):
            continue
        # per-action coverage (vacuity guard) on the configurations that finish quickly; the big ones run without it
        # (TLC's coverage mode also keeps the distinct values of every variable: with the 8 GB heap the stop() configurations run out of memory)
        cov = (tier == 'thorough' and 'big' not in cfg and 'fwd' not in cfg and 'g1' not in cfg and 'stop' not in cfg
               and cfg not in ('MC_par.cfg', 'MC_partime.cfg', 'MC_redisp.cfg') and 'live' not in cfg)
        r = run_config(module, cfg, coverage=cov, timeout=10800)
        if cov and not r['ok'] and not r.get('violated') and 'ran out of memory' in r.get('tail', ''):
            res['messages'].append('NOTE coverage run of %s/%s ran out of memory: repeated without coverage (no per-action counts for it)' % (module, cfg))
            r = run_config(module, cfg, coverage=False, timeout=10800)
        res['configs'].append({k: v for k, v in r.items() if k != 'tail'})
        res['states'] += r['states']
        res['transitions'] += r['transitions']
        missing = [a for a in REQUIRED.get(cfg, []) if 'action_counts' in r and not r['action_counts'].get(a)]
        if missing:
            res['machinery_failure'] = True
            res['messages'].append('MACHINERY-FAILURE vacuous model run %s/%s: actions never taken: %s' % (module, cfg, missing))
        if not r['ok']:
            # the model does not depend on /repo: an unexplained witness or error here is a defect of the specification
            # (or a finding not yet recorded), to be confirmed against the code by replay before it is believed
            res['machinery_failure'] = True
            res['messages'].append('MACHINERY-FAILURE model run %s/%s failed (%s)\n%s' % (module, cfg, r.get('violated'), r.get('tail', '')))
    res['wall_s'] = round(time.time() - t0, 1)
    return res
