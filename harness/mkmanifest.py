"""Regenerate MANIFEST.json from the tables below (keeps it valid and in sync with harness/check.py)."""
import json, os
VERIF = os.path.dirname(os.path.dirname(os.path.abspath(__file__)))
props = [json.loads(l) for l in open(os.path.join(VERIF, 'properties.jsonl'))]

TRACE = ['C01', 'C02', 'C03', 'C04', 'C05', 'C06', 'C07', 'C08', 'C09', 'C10', 'C11', 'C13', 'C14', 'C15', 'C16', 'C17', 'C18']
SEQ = ['C12', 'C19', 'C20']     # sequential / timed specs with exact replay
WALP = []
NOT_YET = {}

design_ref = {p['id']: 'DESIGN.md section 6, ' + p['id'] for p in props}

def check_entry(pid):
    if pid in TRACE:
        text = ('Model-based: the property is a set of clauses of the TLA+ monitor spec/BubusProps.tla. (1) TLC checks them exhaustively on the '
                'implementation-shaped design model spec/Bubus.tla for small configurations (all interleavings of suspension points); (2) the real '
                'bubus from /repo is executed on systematic and seeded scenario families under a virtual-time asyncio loop and every recorded trace is '
                'replayed by TLC through spec/TraceObs.tla, which evaluates every clause after every observed step and classifies each witness against '
                'the recorded findings (spec/KnownFindings.tla). A VIOLATION always comes from an execution of the real code.')
        tech = 'TLA+ spec + TLC model checking; trace validation of recorded executions (virtual-time asyncio) against the spec'
    elif pid in SEQ:
        text = ('Model-based, exact replay: a sequential TLA+ specification enumerates the whole bounded input/behaviour space with TLC; every '
                'enumerated behaviour is executed against the real code and compared step by step.')
        tech = 'TLA+ sequential spec enumerated by TLC; exact spec->code replay'
    else:
        text = 'see DESIGN.md'
        tech = 'TLA+ trace validation'
    return {
        'property_id': pid,
        'quick_cmd': 'bin/check %s --tier quick' % pid,
        'thorough_cmd': 'bin/check %s --tier thorough' % pid,
        'evidence_file': 'evidence/%s.json' % pid,
        'replay_cmd_template': 'bin/check replay {path}',
        'engine': 'bubus-tla',
        'level_claimed': {'category': 'model_checking', 'text': text, 'design_ref': design_ref[pid]},
        'level_note': ('Trusted base: TLC 1.8 and the CommunityModules Json reader; CPython 3.12 asyncio (the virtual-time loop subclasses the real '
                       'SelectorEventLoop and only replaces the clock and the blocking select); the harness projection of public bubus state. Exhaustive '
                       'only within the stated small configurations; the scenario families sample the unbounded space.'),
        'technique': tech,
    }

def main():
    claimed = TRACE + SEQ + WALP
    m = {
        'version': 1,
        'setup_cmd': 'bin/setup',
        'hooks': {'guard': 'BUBUS_VERIF', 'enable': 'BUBUS_VERIF=1 (default in bin/check): harness/probes.py wraps bubus internals at run time; no hook code lives in /repo',
                  'baseline_off_cmd': 'cd /repo && BUBUS_VERIF=0 /venv/bin/python -m pytest -q -p no:cacheprovider --timeout=900',
                  'source_commits': [], 'add_only': True},
        'engines': [{'name': 'bubus-tla', 'path': 'bin/check', 'serves_properties': claimed,
                     'kind_free_text': 'TLA+ specifications (spec/*.tla) checked with TLC; Python harness (harness/*.py) executing /repo under a virtual-time asyncio loop; trace validation and spec->code replay'}],
        'checks': [check_entry(p) for p in claimed],
        'notes': 'fix: commits in /repo are listed in known_findings.json (fixed entries); recorded findings in known_findings.json (findings).',
        'not_applicable': [{'property_id': p['id'], 'reason': NOT_YET.get(p['id'], 'check under construction in this build (sequential spec / WAL family not finished yet); will be claimed when built')}
                           for p in props if p['id'] not in claimed],
    }
    json.dump(m, open(os.path.join(VERIF, 'MANIFEST.json'), 'w'), indent=1)
    print('claimed', len(claimed), 'not_applicable', len(m['not_applicable']))

if __name__ == '__main__':
    main()
