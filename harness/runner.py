"""Parallel execution of scenarios against /repo's working tree + TraceObs validation."""
import collections
import hashlib
import json
import multiprocessing as mp
import os
import sys
import time

VERIF = os.path.dirname(os.path.dirname(os.path.abspath(__file__)))
if VERIF not in sys.path:
    sys.path.insert(0, VERIF)

NPROC = int(os.environ.get('VERIF_JOBS', '16'))


def _exec_one(scn):
    from harness import engine, probes
    try:
        return engine.execute(scn, probes)
    except BaseException as ex:  # machinery failure: keep going, report
        import traceback
        return {'scn': scn, 'lines': [], 'abort': 'harness:' + repr(ex), 'tb': traceback.format_exc(), 'probe_missing': []}


def _exec_forked(scn):
    """run one scenario in a forked child (pristine interpreter state as far as this scenario is concerned)"""
    import pickle
    r, w = os.pipe()
    pid = os.fork()
    if pid == 0:
        try:
            os.close(r)
            data = pickle.dumps(_exec_one(scn))
            with os.fdopen(w, 'wb') as f:
                f.write(data)
        finally:
            os._exit(0)
    os.close(w)
    with os.fdopen(r, 'rb') as f:
        data = f.read()
    os.waitpid(pid, 0)
    return pickle.loads(data)


def _left_unfinished(tr):
    if tr.get('abort'):
        return True
    end = tr['lines'][-1] if tr['lines'] else {}
    return bool(end.get('blocked') or end.get('open'))


def _exec_chunk(chunk):
    out = []
    dirty = False
    for sid, scn in chunk:
        # a scenario that ended with blocked drivers / unfinished handlers / an abort leaves suspended coroutines behind; the interpreter
        # finalises them whenever it likes, and their `finally` blocks then run in the middle of a later scenario of this worker.  From
        # the first such scenario on, every further scenario of the chunk runs in a forked child of its own.
        tr = _exec_forked(scn) if dirty else _exec_one(scn)
        dirty = dirty or _left_unfinished(tr)
        out.append((sid, tr))
    return out


def execute_all(scns, nproc=None, chunk=20):
    """scns: list of (sid, scenario).  Returns list of (sid, trace) in the same order."""
    nproc = nproc or NPROC
    chunks = [scns[i:i + chunk] for i in range(0, len(scns), chunk)]
    if nproc <= 1 or len(chunks) <= 1:
        res = [_exec_chunk(c) for c in chunks]
    else:
        ctx = mp.get_context('fork')
        with ctx.Pool(min(nproc, len(chunks))) as pool:
            res = pool.map(_exec_chunk, chunks)
    return [x for c in res for x in c]


def scn_hash(scn):
    return hashlib.sha1(json.dumps(scn, sort_keys=True).encode()).hexdigest()[:12]


def explore(scns, jobs=None):
    """Execute + validate.  Returns dict with traces, reports (per sid), timing."""
    from harness import tlc
    t0 = time.time()
    traces = execute_all(scns)
    t1 = time.time()
    bad = [(sid, tr) for sid, tr in traces if str(tr.get('abort') or '').startswith('harness:')]
    good = [(sid, tr) for sid, tr in traces if not str(tr.get('abort') or '').startswith('harness:')]
    reports, states = tlc.validate_obs(good, jobs=jobs or max(2, NPROC // 2))
    t2 = time.time()
    return {'traces': dict(traces), 'reports': reports, 'harness_failures': bad, 'states': states,
            'lines': sum(len(tr['lines']) for _, tr in good), 't_exec': t1 - t0, 't_tlc': t2 - t1}


def summarize(res):
    c = collections.Counter()
    ex = {}
    for sid, r in res['reports'].items():
        for w in r['wit']:
            key = (w['c'], w['kf'])
            c[key] += 1
            ex.setdefault(key, (sid, w))
    return c, ex


if __name__ == '__main__':
    from harness import families
    fam = sys.argv[1]
    seed = int(sys.argv[2]) if len(sys.argv) > 2 else 0
    count = int(sys.argv[3]) if len(sys.argv) > 3 else None
    scns = [('%s/%d' % (fam, i), s) for i, s in enumerate(families.generate(fam, seed, count))]
    res = explore(scns)
    c, ex = summarize(res)
    print('scenarios', len(scns), 'lines', res['lines'], 'exec %.1fs tlc %.1fs' % (res['t_exec'], res['t_tlc']), 'harness failures', len(res['harness_failures']))
    for sid, tr in res['harness_failures'][:3]:
        print('HARNESS FAILURE', sid, tr['abort'], tr.get('tb', '')[-600:])
    aborts = collections.Counter(tr['abort'] for tr in res['traces'].values())
    print('aborts', dict(aborts))
    for key, n in sorted(c.items()):
        sid, w = ex[key]
        print('%6d %-28s kf=%-4s e.g. %s %s' % (n, key[0], key[1], sid, json.dumps(w)))
    if len(sys.argv) > 4:
        sid = sys.argv[4]
        tr = res['traces'][sid]
        print(json.dumps(tr['scn']))
        for l in tr['lines']:
            print(json.dumps({k: v for k, v in l.items() if k not in ('hist', 'q', 'reg')}))
        print(res['reports'][sid])
