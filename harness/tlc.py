"""Batch TLC invocations: trace validation (TraceObs / TraceImpl), model checking, verdict parsing."""
import json
import os
import re
import shutil
import subprocess
import tempfile
import time
from concurrent.futures import ThreadPoolExecutor

VERIF = os.path.dirname(os.path.dirname(os.path.abspath(__file__)))
SPEC = os.path.join(VERIF, 'spec')
JAVA_CP = '/opt/veriftools/tla/tla2tools.jar:/opt/veriftools/tla/CommunityModules-deps.jar'
WORK = os.environ.get('VERIF_WORK', os.path.join(VERIF, '.work'))


class TLCError(Exception):
    pass


def workdir(prefix):
    os.makedirs(WORK, exist_ok=True)
    return tempfile.mkdtemp(prefix=prefix + '-', dir=WORK)


# ---------------------------------------------------------------------------------------------
# normalisation of recorded traces into the shape the TLA+ monitor reads (fixed fields per line type)
# ---------------------------------------------------------------------------------------------
def _cfg(scn):
    return {
        'redispatch': True,
        'stopt': True,
        'buses': [{'name': b['name'], 'parallel': bool(b.get('parallel')), 'maxhist': int(b.get('maxhist') or 0), 'wal': bool(b.get('wal'))} for b in scn['buses']],
        'handlers': [dict({'id': h['id'], 'bus': h['bus'], 'pat': h['pat'], 'kind': h.get('kind', 'async'), 'to': h.get('to', '')},
                          **({'late': True} if h.get('late') else {})) for h in scn['handlers']],
    }


def _by(by):
    if by.startswith('RL:'):
        return 'rl', 0
    if by.startswith('A:'):
        return 'in', int(by[2:])
    return '?', 0


_KEEP = {
    'Init': [],
    'Disp': ['b', 'e', 'ty', 'out', 'xp', 'xpe', 'act', 'drv', 'fw', 'same', 'n'],
    'HEnter': ['act', 'b', 'e', 'h', 'rb', 'sync', 'tmo'],
    'HExit': ['act', 'out'],
    'HOp': ['act', 'op'],
    'HReadBus': ['act', 'rb'],
    'AwB': ['act', 'e', 'also'],
    'AwE': ['act', 'e', 'canc', 'same'],
    'XAwB': ['d', 'e'],
    'XAwE': ['d', 'e', 'same', 'exc'],
    'IdleB': ['d', 'b', 'tmo'],
    'IdleE': ['d', 'b', 'exc', 'qn'],
    'StopB': ['d', 'b', 'tmo', 'running'],
    'StopE': ['d', 'b', 'exc'],
    'CancelRL': ['d', 'b', 'had'],
    'Reg': ['d', 'x', 'b', 'h', 'pat'],
    'ExpB': ['d', 'x', 'b', 'ty', 'inc', 'exc', 'tmo', 'sub'],
    'ExpE': ['d', 'x', 'b', 'e', 'err'],
    'ProcB': ['b', 'e', 'n'],
    'ProcE': ['b', 'e'],
    'ProcX': ['b', 'e', 'exc'],
    'End': ['blocked', 'open', 'abort', 'failed', 'crldone', 'wal'],
    'Wal': ['b', 'e'],
    'WalFault': ['b', 'e', 'at'],
}


def obs_line(l):
    a = l['a']
    if a == 'Acc':
        out = {'a': a, 'e': l['e'], 'rany': bool(l['flags'].get('raise_if_any', True)), 'k': l['out']['k'], 'v': l['out']['v']}
    elif a in _KEEP:
        out = {'a': a}
        for k in _KEEP[a]:
            if k in l:          # optional fields (sub, also, op) are simply absent on lines that do not carry them
                out[k] = l[k]
        if a == 'HEnter':
            out['byk'], out['bya'] = _by(l['by'])
        if a == 'ProcB':
            out['ok'], out['oa'] = _by(l['owner'])
    else:
        out = {'a': 'Other'}
    out['t'] = l['t']
    out['evs'] = [{'e': r['e'], 'ty': r['ty'], 'st': r['st'], 'sig': r['sig'], 'par': r['par'], 'path': r['path'],
                   'res': [{'h': x['h'], 'b': x['b'], 'st': x['st'], 'err': x['err'], 'val': x['val'], 'kids': x['kids']} for x in r['res']]}
                  for r in l['evs']]
    out['hist'] = l['hist']
    out['q'] = l['q']
    out['reg'] = l['reg']
    return out


def obs_trace(tr, tid):
    return {'id': tid, 'cfg': _cfg(tr['scn']), 'lines': [obs_line(l) for l in tr['lines']]}


# ---------------------------------------------------------------------------------------------
# running TLC
# ---------------------------------------------------------------------------------------------
def run_tlc(module, cfg, env=None, workers=1, extra=(), timeout=3600, cwd=SPEC, metadir=None, heap='2g'):
    md = metadir or workdir('meta')
    cmd = ['java', '-XX:+UseParallelGC', '-Xss64m', '-Xmx' + heap, '-cp', JAVA_CP, 'tlc2.TLC', '-workers', str(workers), '-metadir', md,
           '-noGenerateSpecTE', '-config', cfg, *extra, module]
    e = dict(os.environ)
    if env:
        e.update(env)
    t0 = time.time()
    try:
        p = subprocess.run(cmd, cwd=cwd, env=e, stdout=subprocess.PIPE, stderr=subprocess.STDOUT, timeout=timeout, text=True)
        out, rc = p.stdout, p.returncode
    except subprocess.TimeoutExpired as ex:
        out, rc = (ex.stdout or b'').decode() if isinstance(ex.stdout, bytes) else (ex.stdout or ''), -9
    finally:
        if metadir is None:
            shutil.rmtree(md, ignore_errors=True)
    return out, rc, time.time() - t0


_TRACE_RE = re.compile(r'<<"TRACE", "((?:[^"\\]|\\.)*)">>')


def parse_trace_reports(out):
    res = []
    for m in _TRACE_RE.finditer(out):
        res.append(json.loads(json.loads('"' + m.group(1) + '"')))
    return res


def stats(out):
    m = re.search(r'(\d+) states generated, (\d+) distinct states found', out)
    return (int(m.group(1)), int(m.group(2))) if m else (0, 0)


def validate_obs(traces, jobs=8, batch=150, keep_dir=None):
    """traces: list of (tid, recorded trace).  Returns {tid: {'wit': [...], 'cnt': {...}}}; raises TLCError if TLC itself failed."""
    d = keep_dir or workdir('obs')
    batches = [traces[i:i + batch] for i in range(0, len(traces), batch)]
    files = []
    for i, b in enumerate(batches):
        f = os.path.join(d, 'obs%d.json' % i)
        with open(f, 'w') as fh:
            json.dump([obs_trace(tr, tid) for tid, tr in b], fh)
        files.append(f)

    def one(f):
        return run_tlc('TraceObs.tla', 'TraceObs.cfg', env={'TRACE_FILE': f}, workers=1, timeout=3000)

    results = {}
    states = 0
    with ThreadPoolExecutor(max_workers=jobs) as ex:
        for f, (out, rc, wall) in zip(files, ex.map(one, files)):
            reps = parse_trace_reports(out)
            n = len(json.load(open(f)))
            if rc != 0 or len(reps) != n:
                tail = '\n'.join(out.splitlines()[-40:])
                raise TLCError('TraceObs failed on %s (rc=%s, %d/%d reports)\n%s' % (f, rc, len(reps), n, tail))
            states += stats(out)[1]
            for r in reps:
                results[r['id']] = r
    if keep_dir is None:
        shutil.rmtree(d, ignore_errors=True)
    return results, states


# ---------------------------------------------------------------------------------------------
# conformance: TraceImpl (the recorded trace replayed through the actions of Bubus.tla)
# ---------------------------------------------------------------------------------------------
_H_OPS = {'d', 'rd', 'y', 's', 'a', 'rb', 'raise', 'ret', 'g', 'logop', 'stop', 'cl'}
_D_OPS = {'d', 'rd', 'a', 'y', 's', 'idle', 'g', 'acc', 'stop', 'crl', 'expect', 'on'}


def impl_eligible(scn):
    """The subset of scenarios the detailed model covers so far (grows with the model)."""
    if any(h.get('kind', 'async') not in ('async', 'fwd', 'sync') for h in scn['handlers']):
        return False
    if any((t or {}).get('rtype') for t in scn.get('events', {}).values()):
        return False
    if any(h.get('retry') for h in scn['handlers']):
        return False   # @retry-decorated handlers: the decorator's own tasks / timeouts are not part of the bus model
    for sc in scn['scripts'].values():
        for ops in sc.values():
            for k, op in enumerate(ops):
                if op[0] not in _H_OPS or (op[0] == 'd' and len(op) > 3 and op[3]):
                    return False
                if op[0] == 'stop' and any(o[0] in ('a', 'raise', 'stop') for o in ops[k + 1:]):
                    return False   # after its own stop() a handler may carry a pending cancellation: awaiting / raising then is not modelled
    for ops in scn['drivers']:
        for op in ops:
            if op[0] not in _D_OPS or (op[0] == 'd' and len(op) > 3 and op[3]) \
                    or (op[0] == 'stop' and len(op) > 3 and op[3]) or (op[0] == 'expect' and len(op) > 7 and op[7]):
                return False
    return True


def impl_trace_ok(tr):
    """trace-level exclusions of corners the model deliberately leaves out (documented in DESIGN.md 12.3)"""
    stopped = set()
    stopping = {}     # bus -> callers inside an untimed stop()
    stopping_t = {}   # bus -> callers inside stop(timeout > 0): first a wait_until_idle(), during which the bus works as usual
    rejected_roots = set()
    for l in tr['lines']:
        a = l['a']
        if a == 'StopB':
            timed = (l.get('tmo') or 0) > 0
            if stopping_t.get(l['b']) or (timed and stopping.get(l['b'])):
                return False  # overlapping stop() calls on one bus of which one is timed: not modelled
            if timed and l.get('running'):
                stopping_t.setdefault(l['b'], set()).add(l['d'])
            else:
                stopping.setdefault(l['b'], set()).add(l['d'])
                stopped.add(l['b'])
        elif a == 'StopE':
            stopping.get(l['b'], set()).discard(l['d'])
            if l['d'] in stopping_t.get(l['b'], ()):
                stopping_t[l['b']].discard(l['d'])
                stopped.add(l['b'])
        elif a == 'CancelRL':
            stopped.add(l['b'])
        elif a in ('Disp', 'IdleB') and l['b'] in stopped:
            return False      # a bus used again after stop()/cancel: a new run loop next to the dying one (findings G2/G3 territory)
        elif stopping_t.get(l['b'] if 'b' in l else None) and (a == 'IdleB' or (a == 'Disp' and l['out'] == 'rej_shutdown')):
            return False      # the same, inside the shutdown phase of a timed stop() (or possibly so: IdleB)
        if a == 'Disp' and not l.get('fw') and not l.get('act'):
            if l['e'] in rejected_roots:
                return False  # a root whose first dispatch was rejected is dispatched again: the model's driver has forgotten it
            if l['out'] != 'ok':
                rejected_roots.add(l['e'])
    return True


def impl_trace(tr, tid):
    cfg = _cfg(tr['scn'])
    names = [b['name'] for b in cfg['buses']]
    q = {n: [] for n in names}
    hist = {n: [] for n in names}
    snap = []
    x = {'unf': {n: 0 for n in names}, 'idle': {n: False for n in names}, 'running': {n: False for n in names}, 'semv': 1, 'depth': 0}
    lines = []
    for l in tr['lines']:
        for r in l['evs']:
            rec = {'st': r['st'], 'sig': r['sig'], 'par': r['par'], 'path': r['path'],
                   'res': [{'h': y['h'], 'b': y['b'], 'st': y['st'], 'err': y['err'], 'kids': y['kids']} for y in r['res']]}
            if r['e'] > len(snap):
                snap.append(rec)
            else:
                snap[r['e'] - 1] = rec
        for n, v in l['hist']:
            hist[n] = v
        for n, v in l['q']:
            q[n] = v
        if l.get('xs'):
            x = l['xs']
        a = l['a']
        out = {'a': a}
        if a in ('ProcB', 'ProcE', 'ProcX'):
            ok, oa = _by(l['owner'])
            out.update(b=l['b'], e=l['e'], ok=ok, oa=oa, exc=l.get('exc', ''))
        elif a == 'HOp':
            out.update(act=l['act'], op=l['op'])
        elif a in _KEEP:
            for k in _KEEP[a]:
                if k in l:
                    out[k] = l[k]
            if a == 'HEnter':
                out['byk'], out['bya'] = _by(l['by'])
            if a == 'Wal':
                out['at'] = 'write'
        out['s'] = {'q': dict(q), 'hist': dict(hist), 'snap': list(snap), 'unf': x['unf'], 'idle': x['idle'], 'running': x['running'],
                    'semv': x['semv'], 'depth': x['depth']}
        lines.append(out)
    return {'id': tid, 'cfg': cfg, 'lines': lines}


_IMPL_REJ = re.compile(r'<<"IMPL-REJECT", ("?[^,]*"?), "line", (\d+), "((?:[^"\\]|\\.)*)">>')
_IMPL_ACC = re.compile(r'<<"IMPL-ACCEPTED", (\d+), "of", (\d+)>>')


def validate_impl(traces, jobs=8, batch=60, keep_dir=None, timeout=420):
    """traces: list of (tid, recorded trace) of impl-eligible scenarios.  Returns (accepted ids, {rejected id: (line, logged line)}, states)."""
    d = keep_dir or workdir('impl')
    batches = [traces[i:i + batch] for i in range(0, len(traces), batch)]
    files = []
    for i, b in enumerate(batches):
        f = os.path.join(d, 'impl%d.json' % i)
        docs = [impl_trace(tr, tid) for tid, tr in b]
        with open(f, 'w') as fh:
            json.dump(docs, fh)
        tmo_types = sorted({ty for _, tr in b for ty, o in (tr['scn'].get('events') or {}).items() if (o or {}).get('timeout') is not None})
        files.append((f, [t for t, _ in b], tmo_types, max(len(x['lines'][-1]['s']['snap']) for x in docs),
                      max(sum(1 for l in x['lines'] if l['a'] == 'HEnter' or (l['a'] == 'Disp' and l.get('fw'))) + 2 for x in docs), max(len(tr['scn']['drivers']) for _, tr in b)))

    def one(item):
        f, ids, tmo_types, maxev, maxact, ndrv = item
        cfgp = f[:-5] + '.cfg'
        base = open(os.path.join(SPEC, 'TraceImpl.cfg')).read()
        base = re.sub(r'MaxEv = \d+', 'MaxEv = %d' % max(1, maxev), base)
        base = re.sub(r'MaxAct = \d+', 'MaxAct = %d' % max(1, maxact), base)
        base = re.sub(r'NDrv = \d+', 'NDrv = %d' % max(1, ndrv), base)
        base = re.sub(r'TimeoutTypes = \{[^}]*\}', 'TimeoutTypes = {%s}' % ', '.join('"%s"' % t for t in tmo_types), base)   # the event types created with a timeout in this batch
        open(cfgp, 'w').write(base)
        return run_tlc('TraceImpl.tla', cfgp, env={'TRACE_FILE': f, 'JAVA_TOOL_OPTIONS': '-Dtlc2.tool.queue.IStateQueue=StateDeque'},
                       workers=1, timeout=timeout)

    accepted, rejected, states = set(), {}, 0
    with ThreadPoolExecutor(max_workers=jobs) as ex:
        for item, (out, rc, wall) in zip(files, ex.map(one, files)):
            m = _IMPL_ACC.search(out)
            if rc == -9:
                # the search for an explanation of a diverging trace can blow up (up to 10 unlogged steps between two lines): conformance is
                # not a verdict, so a batch that exceeds its budget is reported as not explained and the check goes on
                for t in item[1]:
                    rejected[t] = (0, {'a': 'conformance search exceeded its time budget (%ds) for this batch' % timeout})
                continue
            if rc != 0 or not m:
                ls = [x for x in out.splitlines() if not re.match(r'^\d+\. Line', x)]
                k = next((j for j, x in enumerate(ls) if x.startswith('Error:') or 'Exception' in x), max(0, len(ls) - 60))
                raise TLCError('TraceImpl failed on %s (rc=%s)\n%s' % (item[0], rc, '\n'.join(ls[k:k + 25] + ['...'] + ls[-12:])))
            states += stats(out)[1]
            rej = {}
            for r in _IMPL_REJ.finditer(out):
                tid = r.group(1).strip('"')
                rej[tid] = (int(r.group(2)), json.loads(json.loads('"' + r.group(3) + '"')))
            for t in item[1]:
                if str(t) in rej:
                    rejected[t] = rej[str(t)]
                else:
                    accepted.add(t)
    if keep_dir is None:
        shutil.rmtree(d, ignore_errors=True)
    return accepted, rejected, states
