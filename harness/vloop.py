"""Virtual-time asyncio loop (DESIGN.md 5.1).

A subclass of CPython's own SelectorEventLoop: tasks, futures, call_soon FIFO order, wait_for,
semaphores are all the real thing.  Only two things differ from a production loop:
  * time() is a virtual clock;
  * the selector never blocks: when nothing is ready the clock jumps to the earliest live timer.
So every schedule produced here is one a real loop produces when I/O and sleeps take exactly the
scripted durations.  Guards (learned the hard way, see DESIGN.md 5.1):
  * Livelock   - more than `max_frozen` loop iterations without virtual-time progress
                 (a task that never sleeps freezes a virtual clock forever);
  * Deadlock   - nothing runnable and no timer at all;
  * Horizon    - virtual time passed `horizon`.
"""
import asyncio
import heapq


class LoopAbort(BaseException):
    kind = 'abort'


class Livelock(LoopAbort):
    kind = 'livelock'


class Deadlock(LoopAbort):
    kind = 'deadlock'


class Horizon(LoopAbort):
    kind = 'horizon'


class VLoop(asyncio.SelectorEventLoop):
    def __init__(self, horizon=120.0, max_frozen=50000):
        super().__init__()
        self._vt = 0.0
        self.horizon = horizon
        self.max_frozen = max_frozen
        self._frozen = 0
        self.iterations = 0
        self.on_iteration = None  # optional driver hook, called at every loop iteration boundary
        real_select = self._selector.select

        def select(timeout=None):
            self.iterations += 1
            if self.on_iteration is not None:
                self.on_iteration()
            if timeout is None:
                raise Deadlock('no runnable task and no timer')
            if timeout > 0:
                # jump exactly to the earliest live timer (asyncio already dropped cancelled heads)
                self._frozen = 0
                when = self._scheduled[0]._when if self._scheduled else self._vt + timeout
                self._vt = max(self._vt, when)
                if self._vt > self.horizon:
                    raise Horizon('virtual time %.3f passed the horizon' % self._vt)
            else:
                self._frozen += 1
                if self._frozen > self.max_frozen:
                    raise Livelock('%d iterations without time progress' % self._frozen)
            return real_select(0)

        self._selector.select = select

    def time(self):
        return self._vt

    def ms(self):
        return int(round(self._vt * 1000))


def run(coro_fn, horizon=120.0, max_frozen=50000):
    """Run coro_fn() to completion in a fresh virtual loop.  Returns (result, abort_kind|None)."""
    loop = VLoop(horizon=horizon, max_frozen=max_frozen)
    asyncio.set_event_loop(loop)
    try:
        try:
            return loop.run_until_complete(coro_fn()), None
        except LoopAbort as ex:
            return None, ex.kind
    finally:
        try:
            # cancel whatever is left so that close() does not complain; never advance time here
            for t in asyncio.all_tasks(loop):
                t.cancel()
            loop.close()
        except BaseException:
            pass
        asyncio.set_event_loop(None)
