"""One-off helper: search the scenario families for the shortest execution exhibiting each recorded finding and pin it
under replays/<finding>.json (scenario + the witnesses it must produce)."""
import json, os, sys
from harness import families, runner

VERIF = os.path.dirname(os.path.dirname(os.path.abspath(__file__)))
WANT = {'F0': 'C05.unrelated', 'F1': 'C04.incomplete', 'F2': 'C03.hang', 'F4': 'C08.regress',
        'F11': 'C03.hang', 'G1': 'C02.fifo', 'G2': 'C16.start_after_stop', 'G3': 'C16.start_after_stop'}
FAMS = ['await_pos', 'recursion', 'fwd3', 'timeout', 'hist', 'life', 'firstuse']

best = {}
for fam in FAMS:
    scns = [('%s/%d' % (fam, i), s) for i, s in enumerate(families.generate(fam, 0, 400))]
    res = runner.explore(scns)
    for sid, rep in res['reports'].items():
        for w in rep['wit']:
            kf = w['kf']
            if kf in WANT and w['c'] == WANT[kf]:
                n = len(res['traces'][sid]['lines'])
                if kf not in best or n < best[kf][0]:
                    best[kf] = (n, sid, res['traces'][sid]['scn'], [x for x in rep['wit'] if x['kf'] == kf])
for kf, (n, sid, scn, wit) in sorted(best.items()):
    scn = {k: v for k, v in scn.items()}
    for h in scn['handlers']:
        h.pop('_fn', None)
    out = {'finding': kf, 'from': sid, 'lines': n, 'expect': sorted({(w['c']) for w in wit}), 'scenario': scn}
    json.dump(out, open(os.path.join(VERIF, 'replays', kf + '.json'), 'w'), indent=1)
    print(kf, sid, n, out['expect'])
print('missing', sorted(set(WANT) - set(best)))
