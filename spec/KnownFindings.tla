--------------------------- MODULE KnownFindings ---------------------------
(***************************************************************************
 One signature predicate per genuine defect of bubus that is recorded in
 /verif/known_findings.json instead of being repaired (DESIGN.md 7).
 `Classify(cfg, o, w)` names the finding whose *mechanism* explains witness w in the
 final observable state o, or "" when no recorded finding explains it - such a
 witness is a VIOLATION.  The signatures are deliberately about the mechanism
 (who started the handler, what kind of frame was abandoned ...) so that a different
 violation of the same property is still reported.  Read-only at run time.
 ***************************************************************************)
EXTENDS BubusProps

\* (F5 - frames abandoned by a cancellation travelling through an inline process_event - was repaired in /repo: b9117ef, 119c6df;
\*  its signature is gone, so its symptoms are violations again)
\* process_event aborted by the recursion guard (F2): the probe saw a RuntimeError and a scenario handler of that bus has
\* already handled more than two ancestors of the event
StrandedR(cfg, o) == {<<p[1], p[2]>> : p \in {x \in o.procX : x[3] = "RuntimeError" /\
                          \E h \in Puppets(cfg, x[1], o.ety[x[2]]) : AncRuns(o, x[2], x[1], h.id, {}) > 2}}
EvOf(S) == {p[2] : p \in S}
InNoHistory(o, e) == \A b \in DOMAIN o.hist : ~InSeq(e, o.hist[b])
SomeBounded(cfg) == \E b \in BusNames(cfg) : MaxHist(cfg, b) > 0

\* the events whose lost completion keeps an inline drain of await w.a going: the awaited tree itself, and the trees of the unrelated events
\* that drain had already taken (F0) - their handlers' own nested drains run on this task too
DrainScope(o, w) == Sub(o, w.a) \cup UNION {Sub(o, v.e) : v \in {u \in o.wit : u.c = "C05.unrelated" /\ u.a = w.a /\ u.k = "in"}}

CompletionClauses == {"C03.hang", "C03.incomplete", "C03.not_completed", "C10.incomplete", "C04.incomplete", "C04.raised"}

ClassifyBase(cfg, o, w) ==
  CASE w.c = "C05.unrelated" /\ w.k = "in"                                   -> "F0"
    \* the drain goes on although nothing of the awaited tree is left to process: only when a recorded finding lost that tree's completion
    [] w.c = "C05.unrelated" /\ w.k = "in_nothing_left" /\ (DrainScope(o, w) \cap EvOf(StrandedR(cfg, o))) # {}                 -> "F2"
    [] w.c = "C05.unrelated" /\ w.k = "in_nothing_left" /\ SomeBounded(cfg) /\
       \E d \in DrainScope(o, w) : ~o.snap[d].sig /\ o.snap[d].res # <<>> /\ ResDone(o.snap[d]) /\ InNoHistory(o, d)         -> "F11"
    \* F0 again: an unrelated event drained inline runs under the draining handler's timeout; when that fires, the handlers of the
    \* unrelated event that had not started are failed without ever running
    [] w.c = "C01.missing" /\ <<w.b, w.e, "Cancelled">> \in o.procX /\ (\E tk \in o.take : tk[1] = w.b /\ tk[2] = w.e)
       \* (the event itself, or an event whose handler was draining it, was taken by a drain that was not waiting for it)
       /\ (\E tk \in o.take : ~tk[4] /\ <<tk[1], tk[2], "Cancelled">> \in o.procX) /\ ~TimedOutAncestor(o, w.e)
       /\ (\E i \in ResOf(o.snap[w.e], w.h, w.b) : o.snap[w.e].res[i].err \in {"Cancelled:pending", "Cancelled:interrupted"})   -> "F0"
    [] w.c = "C04.incomplete" /\ w.k = "held"                                -> "F1"
    \* an await that returned an incomplete child for a recorded reason (F1, F2, F4, F11 ...) also lets unrelated handlers run before the child
    \* is done: same finding (but not when the child was awaited at once and nothing else was drained first: "early_held_immediate")
    [] w.c = "C02.fifo" /\ w.k = "in"                                        -> "G1"
    [] w.c \in {"C06.overlap", "C02.serial"} /\ w.k = "parsib"               -> "G9"
    [] w.c = "C16.start_after_stop" /\ w.k = "in"                            -> "G2"
    [] w.c = "C16.start_after_stop" /\ w.k = "rl_restart"                    -> "G3"
    [] w.c \in {"C08.regress", "C08.results_added"} /\ w.k = "newbus"        -> "F4"
    [] w.c \in {"C03.incomplete", "C04.incomplete"} /\ w.k = "regressed"       -> "F4"
    \* F4 again: the awaited (forwarded) event was complete, a later bus added results - and those handlers' children are not done either
    [] w.c = "C03.incomplete" /\ (\E x \in o.wit : x.c \in {"C08.regress", "C08.results_added"} /\ x.k = "newbus" /\ x.e = w.a)
                              /\ w.e \in Sub(o, w.a)                           -> "F4"
    [] w.c = "C09.event_bus" /\ w.k = "lastpath"                             -> "F9"
    [] w.c = "C01.missing" /\ <<w.b, w.e>> \in StrandedR(cfg, o)             -> "F2"
    [] w.c \in CompletionClauses /\ (Sub(o, w.e) \cap EvOf(StrandedR(cfg, o))) # {}   -> "F2"
    [] w.c = "C15.hang" /\ \E p \in StrandedR(cfg, o) : p[1] = w.b           -> "F2"
    [] w.c \in {"C03.hang", "C03.not_completed", "C03.incomplete", "C04.incomplete"} /\ w.k \in {"", "completed", "processed"} /\ SomeBounded(cfg) /\
       \E d \in Sub(o, w.e) : ~o.snap[d].sig /\ o.snap[d].res # <<>> /\ ResDone(o.snap[d]) /\ InNoHistory(o, d) -> "F11"
    [] OTHER                                                                 -> ""
\* an await that returned an incomplete child for a recorded reason (F1, F2, F4, F11 ...) also lets unrelated handlers start before that child
\* is done (C05.unrelated, k = "early_other"): the same finding explains it.  Not so when the child was awaited at once and nothing else was
\* drained first (k = "early_held_immediate").
Classify(cfg, o, w) ==
  IF w.c = "C05.unrelated" /\ w.k = "early_other"
  THEN LET S == {ClassifyBase(cfg, o, v) : v \in {u \in o.wit : u.c = "C04.incomplete" /\ u.e \in Sub(o, w.a)}} \ {""}
       IN IF S = {} THEN "" ELSE CHOOSE x \in S : TRUE
  ELSE ClassifyBase(cfg, o, w)
=============================================================================
