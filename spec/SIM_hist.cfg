SPECIFICATION SpecAll
CONSTANTS
  Cfg0 = 0
  Types <- MTypes
  MaxEv = 4
  MaxAct = 4
  Budget = 2
  NDrv = 1
  DrvBudget = 3
  MaxDepth = 1
  QueueCap = 2
  HardLimit = 3
  WithErrors = FALSE
  WithIdle = FALSE
  WithSleep = FALSE
  WithExpect = FALSE
  MaxExpect = 0
  ExpFilters = {}
  WithWalFaults = FALSE
  WithStop = FALSE
  TimeoutTypes = {}
  KeepLog = TRUE
INVARIANT TypeOK
INVARIANT LockOK
INVARIANT NoUnexplainedWitness
INVARIANT TerminalOK
INVARIANT EmitBehaviour
CHECK_DEADLOCK FALSE
