------------------------------- MODULE Bubus -------------------------------
(***************************************************************************
 Implementation-shaped model of browser-use/bubus (DESIGN.md 4.1, Appendix A).

 Grain: one action = one stretch of code between two points where an asyncio task
 really suspends.  Long stretches are split into several actions glued by the token
 `cur`: while cur = t only task t moves; a stretch ends (cur' = NoTask) exactly where
 the code suspends.  When cur = NoTask any runnable task may go next: real asyncio
 runs library-internal hops FIFO, so the model over-approximates the schedules -
 every real execution is a behaviour of the model (needed for trace validation) and
 a safety property proved here holds for the real schedules.

 Tasks:  RL(b)  the bus's run loop          (bubus/service.py _run_loop / step)
         HT(a)  the task of handler activation a   (execute_handler -> create_task)
         DT(i)  external drivers (ordinary, non-handler code)
 A task that calls process_event (the run loop, or a handler task in the inline loop of
 BaseEvent.__await__) owns a *frame* (fb, fe, todo, fh, fa).

 Every action that corresponds to an observable step emits the same observation line
 the harness logs (harness/engine.py) and folds it into the observable state `o` with
 the monitor of BubusProps; the property invariants are statements about o.wit.
 Unrepaired defects are modelled as the code behaves (findings F0, F1, F2, F4, F9, F11,
 G1 ...); the repairs committed to /repo (fix: commits) are mirrored here.
 ***************************************************************************)
EXTENDS KnownFindings, Json

CONSTANTS Cfg0,         \* [buses |-> <<[name, parallel, maxhist]..>>, handlers |-> <<[id, bus, pat, kind, to]..>>] (registration order)
          Types,        \* event types that may be created: sequence, Types[1] is used for driver roots unless DrvTypes says otherwise
          MaxEv,        \* bound on the number of events created
          MaxAct,       \* bound on handler activations
          Budget,       \* ops per handler activation (most-general handler)
          NDrv,         \* number of external drivers
          DrvBudget,    \* ops per driver
          MaxDepth,     \* nesting depth of dispatches from handlers (levels below the root)
          QueueCap,     \* queue bound for buses with a history limit (code: 50); 0 = unbounded
          HardLimit,    \* backlog limit for buses with a history limit (code: 100); 0 = off
          WithErrors,   \* handlers may raise
          WithIdle,     \* drivers may call wait_until_idle
          WithSleep,    \* handlers may sleep for a (non-zero) time in addition to zero-time yields
          WithExpect,   \* drivers may call expect()
          MaxExpect,    \* bound on expect() calls
          ExpFilters,   \* the include filters drivers may use (a set of filter names, see BubusProps!FilterOK)
          WithWalFaults, \* WAL writes may fail (I/O fault injection)
          WithStop,     \* drivers may call stop() / cancel a bus's background task
          TimeoutTypes, \* event types created with a handler timeout (a set; {} = no timeouts)
          KeepLog       \* keep the sequence of emitted lines (spec->code replay of simulated behaviours); FALSE when model checking

VARIABLES
  nev,      \* events created so far
  ev,       \* [1..MaxEv -> [ty, par, path, sig, proc, res, lvl]]   the event objects (public fields + completion signal)
  q,        \* [B -> Seq(event)]        event_queue
  unf,      \* [B -> Nat]               queue._unfinished_tasks
  shut,     \* [B -> BOOLEAN]           queue shut down
  hist,     \* [B -> Seq(event)]        event_history (insertion order)
  running,  \* [B -> BOOLEAN]           _is_running
  idle,     \* [B -> BOOLEAN]           _on_idle flag
  semv,     \* semaphore value of the global lock
  depth,    \* ReentrantLock._depth
  lockq,    \* FIFO of tasks waiting for the semaphore
  task,     \* [Tasks -> record]        control state of every task
  nact,     \* handler activations created so far
  nx,       \* execute_handler tasks created so far (parallel buses)
  xh,       \* handlers registered at run time, in registration order: expect() temporaries and late bus.on() registrations
  cur,      \* the task inside an atomic stretch, or NoTask
  o,        \* observable state (BubusProps)
  hlog,     \* history of emitted lines when KeepLog (never read by any action)
  Cfg       \* the static configuration (a variable that never changes, so that one TLC run can validate traces of many configurations)
vars == <<nev, ev, q, unf, shut, hist, running, idle, semv, depth, lockq, task, nact, nx, xh, cur, o, hlog, Cfg>>

\* re-dispatching existing events is opt-in per configuration (field `redispatch` of Cfg; trace validation turns it on)
WithRedispatch == "redispatch" \in DOMAIN Cfg /\ Cfg.redispatch
\* so is stop(timeout > 0) of a driver (field `stopt`)
WithTimedStop == "stopt" \in DOMAIN Cfg /\ Cfg.stopt
NoTask == <<"none", "">>
RL(b) == <<"rl", b>>
HT(a) == <<"h", a>>
DT(i) == <<"d", i>>
XT(k) == <<"x", k>>     \* an execute_handler task of a parallel_handlers bus
B == BusNames(Cfg)
Tasks == {RL(b) : b \in B} \cup {HT(a) : a \in 1..MaxAct} \cup {XT(k) : k \in 1..MaxAct} \cup {DT(i) : i \in 1..NDrv}


T0 == [pc |-> "none", b |-> "", e |-> 0, h |-> "", owner |-> NoTask, kids |-> <<>>, aw |-> 0, bud |-> 0, holds |-> FALSE,
       fb |-> "", fe |-> 0, todo |-> <<>>, fh |-> "", fa |-> 0, out |-> "", lvl |-> 0, born |-> 0, canc |-> FALSE, tout |-> FALSE]
Ev0 == [ty |-> "", par |-> 0, path |-> <<>>, sig |-> FALSE, proc |-> FALSE, res |-> <<>>, lvl |-> 0, n |-> -1]

\* asyncio starts new tasks in creation order (create_task -> call_soon, FIFO): `born` numbers tasks by creation
Born == Cardinality({t \in Tasks : task[t].born > 0})
FirstBorn(t) == \A u \in Tasks : task[u].pc \in {"new", "xnew"} => task[u].born >= task[t].born

\* ------------------------------------------------------------------------
\* derived fields of an event (bubus/models.py event_status etc., Appendix A.4)
\* ------------------------------------------------------------------------
AllTerminal(r) == \A i \in DOMAIN r : Terminal(r[i].st)
Status(x) == IF x.res = <<>> THEN (IF x.proc THEN "completed" ELSE "pending")
             ELSE IF AllTerminal(x.res) THEN "completed"
             ELSE IF x.proc \/ \E i \in DOMAIN x.res : x.res[i].st # "pending" THEN "started" ELSE "pending"
SnapOf(x) == [st |-> Status(x), sig |-> x.sig, par |-> x.par, path |-> x.path, res |-> x.res]
Snaps(E, n) == [e \in 1..n |-> SnapOf(E[e])]
ResIdx(x, h, b) == {i \in DOMAIN x.res : x.res[i].h = h /\ x.res[i].b = b}
HasRes(x, h, b) == ResIdx(x, h, b) # {}
SetRes(x, h, b, st, err, val) == LET i == CHOOSE j \in ResIdx(x, h, b) : TRUE IN
                                 [x EXCEPT !.res[i].st = st, !.res[i].err = err, !.res[i].val = val]
AddKid(x, h, b, c) == LET i == CHOOSE j \in ResIdx(x, h, b) : TRUE IN [x EXCEPT !.res[i].kids = Append(@, c)]
AllKidsOf(x) == UNION {Range(x.res[i].kids) : i \in DOMAIN x.res}

InSomeHist(H, e) == \E b \in B : InSeq(e, H[b])

\* event_are_all_children_complete: every recorded child, transitively, has *status* completed (A.5)
RECURSIVE KidsComplete(_, _, _)
KidsComplete(E, e, seen) ==
  IF e \in seen THEN TRUE
  ELSE \A c \in AllKidsOf(E[e]) : Status(E[c]) = "completed" /\ KidsComplete(E, c, seen \cup {e})
\* event_mark_complete_if_all_handlers_completed
Mark(E, e) ==
  IF E[e].sig THEN E
  ELSE IF E[e].res = <<>> THEN [E EXCEPT ![e].sig = TRUE, ![e].proc = TRUE]
  ELSE IF ~AllTerminal(E[e].res) THEN E
  ELSE IF ~KidsComplete(E, e, {}) THEN E
  ELSE [E EXCEPT ![e].sig = TRUE, ![e].proc = TRUE]
\* process_event tail: walk up the parent chain through the histories of all buses (A.6)
RECURSIVE MarkUp(_, _, _, _)
MarkUp(E, H, e, seen) ==
  LET p == E[e].par IN
  IF p = 0 \/ p \in seen \/ ~InSomeHist(H, p) THEN E
  ELSE MarkUp(IF E[p].sig THEN E ELSE Mark(E, p), H, p, seen \cup {p})

\* cleanup_event_history (A.1 step 8, A.6): completed oldest first, then started, then pending
Evict(E, b, hb) ==
  LET N == MaxHist(Cfg, b) IN
  IF N = 0 \/ Len(hb) <= N THEN hb
  ELSE LET k == Len(hb) - N
           cls(e) == IF Status(E[e]) = "completed" THEN 0 ELSE IF Status(E[e]) = "started" THEN 1 ELSE 2
           order == SortSeq(hb, LAMBDA x, y : cls(x) < cls(y) \/ (cls(x) = cls(y) /\ x < y))
           victims == {order[i] : i \in 1..k}
       IN SeqMinus(hb, victims)

\* ------------------------------------------------------------------------
\* handler selection (A.2)
\* ------------------------------------------------------------------------
HRec(hid) == CHOOSE h \in Range(Cfg.handlers) : h.id = hid
\* handlers registered at run time, in registration order (`xh`): the temporary handlers of pending expect() calls (st "wait"/"got") and
\* the `late` handlers of the configuration once a driver has called bus.on() for them (st "on")
RunTimeHandlers(b, pat) ==
  LET xs == SelectSeq(xh, LAMBDA x : x.b = b /\ x.ty = pat /\ x.st # "gone") IN
  [i \in 1..Len(xs) |-> IF xs[i].st = "on" THEN HRec(xs[i].inc)
                         ELSE [id |-> "x" \o ToString(xs[i].x), bus |-> b, pat |-> pat, kind |-> "exp", to |-> ""]]
Static(b, pat) == SelectSeq(Cfg.handlers, LAMBDA h : h.bus = b /\ h.pat = pat /\ ~IsLate(h))
HandlersOf(b, ty) ==   \* the type's list first, then the wildcards' list, each in registration order
  Static(b, ty) \o RunTimeHandlers(b, ty) \o Static(b, "*") \o RunTimeHandlers(b, "*")
\* number of ancestors (found through the histories) that have a pending/started/completed result of this handler
RECURSIVE AncDepth(_, _, _, _, _, _)
AncDepth(E, H, e, h, b, seen) ==
  IF e \in seen THEN 0
  ELSE LET p == E[e].par IN
       IF p = 0 \/ ~InSomeHist(H, p) THEN 0
       ELSE (IF \E i \in ResIdx(E[p], h, b) : E[p].res[i].st \in {"pending", "started", "completed"} THEN 1 ELSE 0)
            + AncDepth(E, H, p, h, b, seen \cup {e})
Applicable(E, H, b, e) ==
  SelectSeq(HandlersOf(b, E[e].ty),
            LAMBDA h : ~(h.kind = "fwd" /\ InSeq(h.to, E[e].path)) /\ ~HasRes(E[e], h.id, b))
GuardTrips(E, H, b, e) ==  \* the recursion guard raises out of _get_applicable_handlers (finding F2)
  \E i \in DOMAIN Applicable(E, H, b, e) :
     LET h == Applicable(E, H, b, e)[i] IN h.kind # "fwd" /\ AncDepth(E, H, e, h.id, b, {}) > 2
RECURSIVE AddPending(_, _, _)
AddPending(x, hs, b) == IF hs = <<>> THEN x
                        ELSE AddPending([x EXCEPT !.res = Append(@, [h |-> Head(hs).id, b |-> b, st |-> "pending", err |-> "", val |-> "none", kids |-> <<>>])],
                                        Tail(hs), b)

\* ------------------------------------------------------------------------
\* observation lines
\* ------------------------------------------------------------------------
Line(a) == [a |-> a, t |-> 0, evs |-> <<>>, hist |-> <<>>, q |-> <<>>, reg |-> <<>>]
\* fold line ln into o, given the model state after the step
RegOf(X) == [b \in B |-> Cardinality({h \in Handlers(Cfg) : h.bus = b /\ ~IsLate(h)}) + Cardinality({k \in DOMAIN X : X[k].b = b /\ X[k].st # "gone"})]
ObsX(ln, E, n, H, Q, X) ==
  LET o0 == [o EXCEPT !.snap = Snaps(E, n), !.ety = [e \in 1..n |-> E[e].ty], !.hist = H, !.q = Q, !.reg = RegOf(X)]
  IN StepCore(Cfg, o, o0, ln)
Obs(ln, E, n, H, Q) == ObsX(ln, E, n, H, Q, xh)

FrameOwner(t) == IF t[1] = "x" THEN task[t].owner ELSE t      \* the task that called process_event
TaskLabelKind(t) == LET r == FrameOwner(t) IN IF r[1] = "rl" THEN "rl" ELSE IF r[1] = "h" THEN "in" ELSE "?"

InitWith(c) ==
  /\ Cfg = c
  /\ nev = 0 /\ ev = [e \in 1..MaxEv |-> Ev0]
  /\ q = [b \in B |-> <<>>] /\ unf = [b \in B |-> 0] /\ shut = [b \in B |-> FALSE]
  /\ hist = [b \in B |-> <<>>] /\ running = [b \in B |-> FALSE] /\ idle = [b \in B |-> FALSE]
  /\ semv = 1 /\ depth = 0 /\ lockq = <<>>
  /\ task = [t \in Tasks |-> IF t[1] = "d" THEN [T0 EXCEPT !.pc = "run", !.bud = DrvBudget] ELSE T0]
  /\ nact = 0 /\ nx = 0 /\ xh = <<>> /\ cur = NoTask
  /\ o = ObsInit(Cfg)
  /\ hlog = <<>>
Init == InitWith(Cfg0)

\* ------------------------------------------------------------------------
\* dispatch (A.1) - a pure function of the state; the caller's context is (ce, ch, inside)
\* returns [out, E, Q, U, H, R, T] (new ev, q, unf, hist, running, task)
\* ------------------------------------------------------------------------
DispatchFxN(b, e, ce, ch, cb, inside, E0, isNew, ty, lvl, n) ==
  LET E1 == IF isNew THEN [E0 EXCEPT ![e].ty = ty, ![e].lvl = lvl, ![e].n = n] ELSE E0
      \* (2) parent from context unless set or same event (fix: F8)
      E2 == IF E1[e].par = 0 /\ ce # 0 /\ ce # e THEN [E1 EXCEPT ![e].par = ce] ELSE E1
      \* (4) path
      E3 == IF InSeq(b, E2[e].path) THEN E2 ELSE [E2 EXCEPT ![e].path = Append(@, b)]
      bounded == MaxHist(Cfg, b) > 0
      backlog == Len(q[b]) + Cardinality({x \in Range(hist[b]) : Status(E3[x]) \in {"pending", "started"}})
      capRej == bounded /\ HardLimit > 0 /\ backlog >= HardLimit
      \* (6) _start(): a run loop task is created if the bus is not running
      startRL == ~running[b] /\ task[RL(b)].pc \in {"none", "dead"}
      T1 == IF ~capRej /\ startRL THEN [task EXCEPT ![RL(b)] = [T0 EXCEPT !.pc = "new", !.b = b, !.born = Born + 1]] ELSE task
      R1 == IF ~capRej THEN [running EXCEPT ![b] = TRUE] ELSE running
      shutRej == ~capRej /\ shut[b]
      fullRej == ~capRej /\ ~shutRej /\ bounded /\ QueueCap > 0 /\ Len(q[b]) >= QueueCap
      ok == ~capRej /\ ~shutRej /\ ~fullRej
      Q1 == IF ok THEN [q EXCEPT ![b] = Append(@, e)] ELSE q
      U1 == IF ok THEN [unf EXCEPT ![b] = @ + 1] ELSE unf
      Hins == IF ok /\ ~InSeq(e, hist[b]) THEN [hist EXCEPT ![b] = Append(@, e)] ELSE hist
      \* child tracking, only after acceptance (fix: F3)
      E4 == IF ok /\ ch # "" /\ inside /\ ce # 0 /\ ce # e /\ HasRes(E3[ce], ch, cb) THEN [E3 EXCEPT ![ce] = AddKid(@, ch, cb, e)] ELSE E3
      H1 == IF ok THEN [Hins EXCEPT ![b] = Evict(E4, b, @)] ELSE Hins
  IN [out |-> IF capRej THEN "rej_capacity" ELSE IF shutRej THEN "rej_shutdown" ELSE IF fullRej THEN "rej_full" ELSE "ok",
      E |-> E4, Q |-> Q1, U |-> U1, H |-> H1, R |-> R1, T |-> T1,
      \* an accepted event marks the bus busy at once (fix: G11): the idle flag must not outlive the moment the run loop takes the event
      I |-> IF ok THEN [idle EXCEPT ![b] = FALSE] ELSE idle]

DispatchFx(b, e, ce, ch, cb, inside, E0, isNew, ty, lvl) == DispatchFxN(b, e, ce, ch, cb, inside, E0, isNew, ty, lvl, -1)

DispLine(b, e, ty, out, act, drv, fw) ==
  Line("Disp") @@ [b |-> b, e |-> e, ty |-> ty, out |-> out, xp |-> FALSE, xpe |-> 0, act |-> act, drv |-> drv, fw |-> fw, same |-> TRUE, n |-> -1]

\* ------------------------------------------------------------------------
\* the global lock (A.7)
\* ------------------------------------------------------------------------
\* release by task t (depth reaches 0): hand the slot to the first waiter or free it
Release(T) ==
  IF lockq # <<>> THEN [sem |-> semv, lq |-> Tail(lockq), T |-> [T EXCEPT ![Head(lockq)].pc = "granted"]]
  ELSE [sem |-> semv + 1, lq |-> lockq, T |-> T]

\* ------------------------------------------------------------------------
\* run loop
\* ------------------------------------------------------------------------
BusyOn(E, H, Q, b) == Q[b] # <<>> \/ \E x \in Range(H[b]) : Status(E[x]) \in {"pending", "started"}

RLStart(b) ==   \* first step of the run-loop task: fresh context (fix: F6), first queue poll started
  /\ cur = NoTask /\ task[RL(b)].pc = "new" /\ FirstBorn(RL(b))
  /\ task' = [task EXCEPT ![RL(b)].pc = IF running[b] THEN "poll" ELSE "dead"]      \* `while self._is_running`
  /\ UNCHANGED <<nev, ev, q, unf, shut, hist, running, idle, semv, depth, lockq, nact, nx, xh, cur, o>>

RLTake(b) ==    \* the helper task's queue.get() -> get_nowait(): the event leaves the queue before any lock
  /\ cur = NoTask /\ task[RL(b)].pc = "poll" /\ q[b] # <<>>
  /\ task' = [task EXCEPT ![RL(b)].pc = "got", ![RL(b)].e = Head(q[b])]
  /\ q' = [q EXCEPT ![b] = Tail(@)]
  /\ UNCHANGED <<nev, ev, unf, shut, hist, running, idle, semv, depth, lockq, nact, nx, xh, cur, o>>

RLShutExit(b) ==  \* get() on an empty, shut-down queue raises QueueShutDown: _run_loop ends (fix: G3-spin)
  /\ cur = NoTask /\ task[RL(b)].pc = "poll" /\ q[b] = <<>> /\ shut[b]
  /\ task' = [task EXCEPT ![RL(b)].pc = "dead"]
  /\ running' = [running EXCEPT ![b] = FALSE]
  /\ UNCHANGED <<nev, ev, q, unf, shut, hist, idle, semv, depth, lockq, nact, nx, xh, cur, o>>
RLPollIdle(b) ==  \* 0.1 s poll timeout: idle flag set when nothing is queued / pending / started
  /\ cur = NoTask /\ task[RL(b)].pc = "poll" /\ q[b] = <<>> /\ ~shut[b]
  /\ ~idle[b] /\ ~BusyOn(ev, hist, q, b)
  /\ idle' = [idle EXCEPT ![b] = TRUE]
  /\ UNCHANGED <<nev, ev, q, unf, shut, hist, running, semv, depth, lockq, task, nact, nx, xh, cur, o>>

\* process_event head for owner t: handler selection, pending results, ProcB / ProcX line
ProcBeginFx(t, b, e, E0) ==
  IF GuardTrips(E0, hist, b, e) THEN [ok |-> FALSE, E |-> E0, todo |-> <<>>]
  ELSE LET hs == Applicable(E0, hist, b, e) IN [ok |-> TRUE, E |-> [E0 EXCEPT ![e] = AddPending(@, hs, b)], todo |-> hs]
ProcLineX(a, t, b, e, x) == Line(a) @@ [b |-> b, e |-> e, n |-> ev[e].n, exc |-> x, ok |-> TaskLabelKind(t), oa |-> IF FrameOwner(t)[1] = "h" THEN FrameOwner(t)[2] ELSE 0]
ProcLine(a, t, b, e) == ProcLineX(a, t, b, e, "RuntimeError")

RLEnter(b, T, sem, dep, lq) ==  \* common tail of RLBegin (lock acquired) and RLGranted: process_event is entered (probe line ProcB)
  LET t == RL(b)  e == task[t].e IN
  /\ task' = [T EXCEPT ![t].pc = "pb0", ![t].holds = TRUE, ![t].fb = b, ![t].fe = e, ![t].todo = <<>>, ![t].fh = "", ![t].fa = 0]
  /\ semv' = sem /\ depth' = dep /\ lockq' = lq
  /\ cur' = t
  /\ o' = Obs(ProcLine("ProcB", t, b, e), ev, nev, hist, q)
  /\ ev' = ev

\* process_event head: handler selection, recursion guard, pending results (A.2)
ProcSelect(t) ==
  /\ cur = t /\ task[t].pc = "pb0"
  /\ LET b == task[t].fb  e == task[t].fe
         pb == ProcBeginFx(t, b, e, ev) IN
     IF pb.ok
     THEN /\ ev' = pb.E
          /\ task' = [task EXCEPT ![t].pc = "pb", ![t].todo = pb.todo]
          /\ UNCHANGED <<semv, depth, lockq, cur, o>>
     ELSE \* the guard raised (finding F2): RuntimeError out of process_event (probe line ProcX)
          /\ ev' = ev
          /\ o' = Obs(ProcLine("ProcX", t, b, e), ev, nev, hist, q)
          /\ task' = [task EXCEPT ![t].pc = "abort"]
          /\ UNCHANGED <<semv, depth, lockq, cur>>
  /\ UNCHANGED <<nev, q, unf, shut, hist, running, idle, nact, nx, xh>>

OwnerAbort(t) ==
  /\ cur = t /\ task[t].pc = "abort"
  /\ IF t[1] = "rl"
     THEN \* step()'s `async with` releases the lock, no task_done, the run loop logs the error and polls again (A.13)
          LET rel == IF depth - 1 = 0 THEN Release(task) ELSE [sem |-> semv, lq |-> lockq, T |-> task] IN
          /\ task' = [rel.T EXCEPT ![t].pc = IF running[task[t].fb] THEN "poll" ELSE "dead", ![t].holds = (depth - 1 # 0), ![t].e = 0, ![t].fe = 0, ![t].fb = ""]
          /\ semv' = rel.sem /\ depth' = depth - 1 /\ lockq' = rel.lq
          /\ cur' = NoTask
     ELSE \* the RuntimeError propagates out of `await child` into the awaiting handler
          /\ task' = [task EXCEPT ![t].pc = "raising", ![t].aw = 0, ![t].fe = 0, ![t].fb = ""]
          /\ UNCHANGED <<semv, depth, lockq, cur>>
  /\ UNCHANGED <<nev, ev, q, unf, shut, hist, running, idle, nact, nx, xh, o>>

RLDrop(b) ==    \* stop() intervened between the queue hand-off and the run loop resuming: the taken event is dropped, the loop ends
  /\ cur = NoTask /\ task[RL(b)].pc = "got" /\ ~running[b]
  /\ task' = [task EXCEPT ![RL(b)].pc = "dead"]
  /\ idle' = [idle EXCEPT ![b] = IF BusyOn(ev, hist, q, b) THEN @ ELSE TRUE]
  /\ UNCHANGED <<nev, ev, q, unf, shut, hist, running, semv, depth, lockq, nact, nx, xh, cur, o>>
RLPollExit(b) ==  \* the poll was interrupted by the queue shutdown: step() returns None, idle check, the loop ends
  /\ cur = NoTask /\ task[RL(b)].pc = "pollx"
  /\ task' = [task EXCEPT ![RL(b)].pc = "dead"]
  /\ idle' = [idle EXCEPT ![b] = IF BusyOn(ev, hist, q, b) THEN @ ELSE TRUE]
  /\ UNCHANGED <<nev, ev, q, unf, shut, hist, running, semv, depth, lockq, nact, nx, xh, cur, o>>
RLTakeDying(b) == \* the queue hand-off that was in flight when the run loop was cancelled still happens (the event is lost with it)
  /\ cur = NoTask /\ task[RL(b)].pc = "dyingt"
  /\ q' = IF q[b] # <<>> THEN [q EXCEPT ![b] = Tail(@)] ELSE q
  /\ task' = [task EXCEPT ![RL(b)].pc = "dying"]
  /\ UNCHANGED <<nev, ev, unf, shut, hist, running, idle, semv, depth, lockq, nact, nx, xh, cur, o>>
RLDie(b) ==       \* a cancelled run loop runs its `finally`
  /\ cur = NoTask /\ task[RL(b)].pc = "dying"
  /\ task' = [task EXCEPT ![RL(b)].pc = "dead"]
  /\ running' = [running EXCEPT ![b] = FALSE]
  /\ UNCHANGED <<nev, ev, q, unf, shut, hist, idle, semv, depth, lockq, nact, nx, xh, cur, o>>

RLBegin(b) ==   \* the run-loop task resumes with the event: idle flag cleared, lock
  /\ cur = NoTask /\ task[RL(b)].pc = "got" /\ running[b]
  /\ idle' = [idle EXCEPT ![b] = FALSE]
  /\ IF semv > 0 /\ lockq = <<>>
     THEN RLEnter(b, task, semv - 1, 1, lockq)
     ELSE /\ lockq' = Append(lockq, RL(b))
          /\ task' = [task EXCEPT ![RL(b)].pc = "lockwait"]
          /\ UNCHANGED <<ev, semv, depth, cur, o>>
  /\ UNCHANGED <<nev, q, unf, shut, hist, running, nact, nx, xh>>

RLGranted(b) ==
  /\ cur = NoTask /\ task[RL(b)].pc = "granted"
  /\ RLEnter(b, task, semv, 1, lockq)
  /\ UNCHANGED <<nev, q, unf, shut, hist, running, idle, nact, nx, xh>>

\* ------------------------------------------------------------------------
\* frames: executing the handlers of the owner's current event (execute_handler, A.9 without timeouts)
\* ------------------------------------------------------------------------
\* next handler of the frame, or the tail of process_event
ParFrame(t) == t[1] # "x" /\ task[t].fe # 0 /\ IsParallel(Cfg, task[t].fb)
OwnerNext(t) ==
  /\ task[t].fe # 0 /\ ~ParFrame(t)
  /\ (cur = t /\ task[t].pc = "pb") \/ (cur = NoTask /\ task[t].pc = "mon" /\ ~task[t].canc)   \* a cancelled owner meets its cancellation at the monitor hop
  /\ task[t].todo # <<>>
  /\ LET h == Head(task[t].todo)  b == task[t].fb  e == task[t].fe IN
     IF h.kind = "fwd"
     THEN \* a forwarding handler is other_bus.dispatch called synchronously with the handler context set
          LET E1 == [ev EXCEPT ![e] = SetRes(@, h.id, b, "started", "", "none")]
              d == DispatchFx(h.to, e, e, h.id, b, TRUE, E1, FALSE, ev[e].ty, ev[e].lvl)
          IN /\ ev' = d.E /\ q' = d.Q /\ unf' = d.U /\ hist' = d.H /\ running' = d.R /\ idle' = d.I
             /\ task' = [d.T EXCEPT ![t].pc = "fwdret", ![t].todo = Tail(@), ![t].fh = h.id, ![t].fa = 0, ![t].out = d.out]
             /\ cur' = t
             /\ nact' = nact
             /\ o' = Obs(DispLine(h.to, e, ev[e].ty, d.out, 0, 0, TRUE), d.E, nev, d.H, d.Q)
     ELSE IF h.kind = "exp"
     THEN \* the temporary sync handler of an expect() call: resolves the call's future with the first matching event; a raising filter
          \* is that handler's error result and leaves the future unresolved (A.12).  Then the monitor hop.
          LET k == CHOOSE j \in DOMAIN xh : "x" \o ToString(xh[j].x) = h.id
              x == xh[k]
              boom == x.inc = "boom"
              match == ~boom /\ x.st = "wait" /\ FilterOK(x.inc, IF ev[e].n >= 0 THEN ev[e].n ELSE 0) /\ ~FilterOK(x.exc, IF ev[e].n >= 0 THEN ev[e].n ELSE 0) IN
          /\ ev' = [ev EXCEPT ![e] = IF boom THEN SetRes(@, h.id, b, "error", "X:PuppetError", "none") ELSE SetRes(@, h.id, b, "completed", "", "none")]
          /\ xh' = IF match THEN [xh EXCEPT ![k].st = "got", ![k].e = e] ELSE xh
          /\ task' = [task EXCEPT ![t].pc = "mon", ![t].todo = Tail(@), ![t].fh = h.id, ![t].fa = 0]
          /\ cur' = NoTask
          /\ UNCHANGED <<q, unf, hist, running, idle, nact, o>>
     ELSE IF h.kind = "sync"
     THEN \* sync scenario handler: called in place, in the owner's task and stretch, with the handler context set (HEnter line)
          /\ nact < MaxAct
          /\ LET E1 == [ev EXCEPT ![e] = SetRes(@, h.id, b, "started", "", "none")]
                 a == nact + 1
                 T1 == [task EXCEPT ![t].pc = "sync", ![t].todo = Tail(@), ![t].fh = h.id, ![t].fa = a,
                                    ![HT(a)] = [T0 EXCEPT !.pc = "sync", !.b = b, !.e = e, !.h = h.id, !.owner = t, !.bud = Budget, !.lvl = ev[e].lvl]] IN
             /\ ev' = E1 /\ nact' = a /\ task' = T1
             /\ cur' = t
             /\ o' = Obs(Line("HEnter") @@ [act |-> a, b |-> b, e |-> e, h |-> h.id, byk |-> TaskLabelKind(t), bya |-> IF FrameOwner(t)[1] = "h" THEN FrameOwner(t)[2] ELSE 0,
                                           rb |-> b, sync |-> TRUE, tmo |-> -1], E1, nev, hist, q)
          /\ UNCHANGED <<q, unf, hist, running, idle>>
     ELSE \* async scenario handler: result started, handler task created with a copy of the context, wait_for suspends
          /\ nact < MaxAct
          /\ ev' = [ev EXCEPT ![e] = SetRes(@, h.id, b, "started", "", "none")]
          /\ nact' = nact + 1
          /\ task' = [task EXCEPT ![t].pc = "waith", ![t].todo = Tail(@), ![t].fh = h.id, ![t].fa = nact + 1,
                                  ![HT(nact + 1)] = [T0 EXCEPT !.pc = "new", !.b = b, !.e = e, !.h = h.id, !.owner = t, !.bud = Budget,
                                                              !.holds = task[t].holds, !.lvl = ev[e].lvl, !.born = Born + 1]]
          /\ cur' = NoTask
          /\ UNCHANGED <<q, unf, hist, running, idle, o>>
  /\ UNCHANGED <<nev, shut, semv, depth, lockq, nx>>
  /\ (Head(task[t].todo).kind # "exp" => UNCHANGED xh)

\* parallel_handlers: one execute_handler task per applicable handler, all created at once; the frame owner awaits them all
ParStart(t) ==
  /\ ParFrame(t) /\ cur = t /\ task[t].pc = "pb" /\ task[t].todo # <<>>
  /\ nx + Len(task[t].todo) <= MaxAct
  /\ LET hs == task[t].todo IN
     /\ task' = [u \in Tasks |->
                   IF u = t THEN [task[t] EXCEPT !.pc = "pwait", !.todo = <<>>]
                   ELSE IF u[1] = "x" /\ u[2] \in (nx + 1)..(nx + Len(hs))
                        THEN [T0 EXCEPT !.pc = "xnew", !.owner = t, !.fb = task[t].fb, !.fe = task[t].fe, !.todo = <<hs[u[2] - nx]>>, !.holds = task[t].holds,
                                        !.born = Born + (u[2] - nx)]
                        ELSE task[u]]
     /\ nx' = nx + Len(hs)
  /\ cur' = NoTask
  /\ UNCHANGED <<nev, ev, q, unf, shut, hist, running, idle, semv, depth, lockq, nact, xh, o>>
XStart(k) ==      \* first step of an execute_handler task
  /\ cur = NoTask /\ k <= nx /\ task[XT(k)].pc = "xnew" /\ FirstBorn(XT(k))
  /\ task' = [task EXCEPT ![XT(k)].pc = "pb"]
  /\ cur' = XT(k)
  /\ UNCHANGED <<nev, ev, q, unf, shut, hist, running, idle, semv, depth, lockq, nact, nx, xh, o>>
XEnd(k) ==        \* execute_handler returned (after its monitor hop)
  /\ cur = NoTask /\ k <= nx /\ task[XT(k)].pc = "mon" /\ task[XT(k)].todo = <<>> /\ ~task[XT(k)].canc
  /\ task' = [task EXCEPT ![XT(k)].pc = "done"]
  /\ UNCHANGED <<nev, ev, q, unf, shut, hist, running, idle, semv, depth, lockq, nact, nx, xh, cur, o>>

\* the forwarding handler returned (or raised): its result is recorded; `await monitor_task` in the finally suspends for one hop
FwdReturn(t) ==
  /\ cur = t /\ task[t].pc = "fwdret"
  /\ LET b == task[t].fb  e == task[t].fe  h == task[t].fh IN
     ev' = [ev EXCEPT ![e] = IF task[t].out = "ok" THEN SetRes(@, h, b, "completed", "", "ev:" \o ToString(e))
                             ELSE SetRes(@, h, b, "error", "X:" \o task[t].out, "none")]
  /\ task' = [task EXCEPT ![t].pc = "mon", ![t].out = ""]
  /\ cur' = NoTask
  /\ UNCHANGED <<nev, q, unf, shut, hist, running, idle, semv, depth, lockq, nact, nx, xh, o>>

\* a sync scenario handler runs inside its owner's stretch: it can dispatch, return or raise, never suspend
InSync(t) == cur = t /\ task[t].pc = "sync"
SyncDispatch(t, b, ty) ==
  /\ InSync(t) /\ nev < MaxEv
  /\ LET a == task[t].fa  x == task[HT(a)] IN
     /\ x.bud > 0 /\ x.lvl < MaxDepth
     /\ LET e == nev + 1
            d == DispatchFx(b, e, x.e, x.h, x.b, TRUE, ev, TRUE, ty, x.lvl + 1) IN
        /\ nev' = e
        /\ ev' = d.E /\ q' = d.Q /\ unf' = d.U /\ hist' = d.H /\ running' = d.R /\ idle' = d.I
        /\ task' = [d.T EXCEPT ![HT(a)].bud = @ - 1, ![HT(a)].kids = Append(@, IF d.out = "ok" THEN e ELSE 0)]
        /\ o' = Obs(DispLine(b, e, ty, d.out, a, 0, FALSE), d.E, e, d.H, d.Q)
  /\ UNCHANGED <<shut, semv, depth, lockq, nact, nx, xh, cur>>
SyncFinish(t, out) ==
  /\ InSync(t) /\ out \in {"ret"} \cup (IF WithErrors THEN {"raise"} ELSE {})
  /\ task' = [task EXCEPT ![t].pc = "syncret", ![HT(task[t].fa)].pc = "done", ![HT(task[t].fa)].out = out]
  /\ o' = Obs(Line("HExit") @@ [act |-> task[t].fa, out |-> out], ev, nev, hist, q)
  /\ UNCHANGED <<nev, ev, q, unf, shut, hist, running, idle, semv, depth, lockq, nact, nx, xh, cur>>
SyncReturn(t) ==   \* back in execute_handler: result recorded, then `await monitor_task` (one hop)
  /\ cur = t /\ task[t].pc = "syncret"
  /\ LET b == task[t].fb  e == task[t].fe  a == task[t].fa IN
     ev' = [ev EXCEPT ![e] = IF task[HT(a)].out = "raise" THEN SetRes(@, task[t].fh, b, "error", "E:a" \o ToString(a), "none")
                             ELSE SetRes(@, task[t].fh, b, "completed", "", "none")]
  /\ task' = [task EXCEPT ![t].pc = "mon"]
  /\ cur' = NoTask
  /\ UNCHANGED <<nev, q, unf, shut, hist, running, idle, semv, depth, lockq, nact, nx, xh, o>>

\* the owner resumes after its handler task finished: result recorded, monitor cancelled and awaited (one hop)
\* cancel every pending result of the children of e, transitively (event_cancel_pending_child_processing, A.9)
RECURSIVE CancelPending(_, _, _)
CancelPending(E, e, seen) ==
  IF e \in seen THEN E
  ELSE LET kids == AllKidsOf(E[e])
           E1 == [x \in DOMAIN E |-> IF x \in kids
                                     THEN [E[x] EXCEPT !.res = [i \in DOMAIN E[x].res |-> IF E[x].res[i].st = "pending"
                                                                                          THEN [E[x].res[i] EXCEPT !.st = "error", !.err = "Cancelled:pending"]
                                                                                          ELSE E[x].res[i]]]
                                     ELSE E[x]]
           RECURSIVE Fold(_, _)
           \* post-order: the child's descendants first, then the child itself is completed if nothing of it is pending any more
           \* and it has been processed at all (fix: F5, partial)
           Fold(EE, S) == IF S = {} THEN EE
                          ELSE LET c == CHOOSE c \in S : TRUE
                                   E2 == CancelPending(EE, c, seen \cup {e})
                               IN Fold(IF E2[c].res # <<>> THEN Mark(E2, c) ELSE E2, S \ {c})
       IN Fold(E1, kids)

OwnerResume(t) ==
  /\ cur = NoTask /\ task[t].pc = "hdone"
  /\ LET b == task[t].fb  e == task[t].fe  a == task[t].fa
         out == task[HT(a)].out IN
     IF out # "cancel" /\ ~task[t].canc
     THEN /\ ev' = [ev EXCEPT ![e] = IF out = "raise" THEN SetRes(@, task[t].fh, b, "error", "E:a" \o ToString(a), "none")
                                     ELSE SetRes(@, task[t].fh, b, "completed", "", "none")]
          /\ task' = [task EXCEPT ![t].pc = "mon"]
     ELSE IF task[t].tout /\ ~task[t].canc
     THEN \* this level's wait_for expired: TimeoutError result, pending results of the children cancelled, next handler goes on
          /\ ev' = CancelPending([ev EXCEPT ![e] = SetRes(@, task[t].fh, b, "error", "Timeout", "none")], e, {})
          /\ task' = [task EXCEPT ![t].pc = "mon", ![t].tout = FALSE]
     ELSE \* merely interrupted by an enclosing timeout: "interrupted" error, the exception keeps travelling (monitor hop first)
          /\ ev' = [ev EXCEPT ![e] = SetRes(@, task[t].fh, b, "error", "Cancelled:interrupted", "none")]
          /\ task' = [task EXCEPT ![t].pc = "monx"]
  /\ UNCHANGED <<nev, q, unf, shut, hist, running, idle, semv, depth, lockq, nact, nx, xh, cur, o>>

\* what a task is awaiting: the handler task of its current handler (wait_for), or - on a parallel_handlers bus - the first
\* execute_handler task (creation order) that has not finished yet
XTasksOfT(T, t) == {k \in 1..nx : T[XT(k)].owner = t /\ T[XT(k)].pc \notin {"free", "none"}}
FirstPendingX(T, t) == LET S == {k \in XTasksOfT(T, t) : T[XT(k)].pc # "done"} IN IF S = {} THEN 0 ELSE CHOOSE k \in S : \A j \in S : k <= j
RECURSIVE TChain(_)
TChain(t) ==    \* the tasks below t along its awaits, outermost first
  IF task[t].pc = "waith" /\ task[t].fa # 0 THEN <<HT(task[t].fa)>> \o TChain(HT(task[t].fa))
  ELSE IF task[t].pc = "pwait" /\ FirstPendingX(task, t) # 0 THEN <<XT(FirstPendingX(task, t))>> \o TChain(XT(FirstPendingX(task, t)))
  ELSE <<>>
\* task.cancel() on a suspended task u: asyncio passes the cancellation down to whatever u awaits; the innermost task is woken with
\* CancelledError, everybody above meets it when the task below has ended.  Returns [T, ok] (ok = FALSE: a suspension point the model
\* does not cover)
RECURSIVE CancelTask(_, _)
CancelTask(T, u) ==
  LET pc == T[u].pc IN
  IF pc = "waith" /\ T[u].fa # 0
  THEN LET r == CancelTask(T, HT(T[u].fa)) IN [T |-> [r.T EXCEPT ![u].canc = TRUE], ok |-> r.ok]
  ELSE IF pc = "pwait"
  THEN LET k == FirstPendingX(T, u) IN
       IF k = 0 THEN [T |-> [T EXCEPT ![u].canc = TRUE, ![u].fa = 0], ok |-> TRUE]      \* all handler tasks done, u about to resume
       ELSE LET r == CancelTask(T, XT(k)) IN [T |-> [r.T EXCEPT ![u].canc = TRUE, ![u].fa = k], ok |-> r.ok]   \* fa remembers the task awaited
  ELSE IF pc \in {"sleep", "yield", "spin"}
  THEN [T |-> [T EXCEPT ![u].canc = TRUE, ![u].pc = "cancelled"], ok |-> TRUE]
  ELSE IF pc = "new"      \* a handler task cancelled before its first step: its code never runs, its owner is woken with the cancellation
  THEN [T |-> [T EXCEPT ![u].canc = TRUE, ![u].pc = "done", ![u].out = "cancel", ![T[u].owner].pc = "hdone"], ok |-> TRUE]
  ELSE IF pc = "xnew"     \* an execute_handler task cancelled before its first step: nothing of it runs, the result stays pending
  THEN [T |-> [T EXCEPT ![u].canc = TRUE, ![u].pc = "done", ![u].out = "cancel"], ok |-> TRUE]
  ELSE IF pc \in {"hdone", "mon"}    \* about to resume: meets the cancellation when it does
  THEN [T |-> [T EXCEPT ![u].canc = TRUE], ok |-> TRUE]
  ELSE IF pc = "hstop_run"          \* the handler that is calling stop() right now (running): the cancellation stays pending
  THEN [T |-> [T EXCEPT ![u].canc = TRUE], ok |-> TRUE]
  ELSE [T |-> T, ok |-> FALSE]
FreeX(T, t) == [u \in DOMAIN T |-> IF u[1] = "x" /\ T[u].owner = t /\ T[u].pc = "done" THEN [T[u] EXCEPT !.pc = "free"] ELSE T[u]]
\* parallel_handlers frames under cancellation (fix: G7): the owner wakes from `await task` with CancelledError, cancels every
\* handler task of the frame that is still running and waits for all of them (gather) before the cancellation travels on
PCancelWake(t) ==
  /\ cur = NoTask /\ task[t].pc = "pwait" /\ task[t].canc
  /\ (IF task[t].fa = 0 THEN TRUE ELSE task[XT(task[t].fa)].pc = "done")
  /\ LET RECURSIVE Fold(_, _)
         Fold(r, S) == IF S = {} THEN r
                       ELSE LET k == CHOOSE k \in S : TRUE
                                c == CancelTask(r.T, XT(k))
                            IN Fold([T |-> c.T, ok |-> r.ok /\ c.ok], S \ {k})
         rest == {k \in XTasksOfT(task, t) : task[XT(k)].pc # "done"}
         r == Fold([T |-> task, ok |-> TRUE], rest) IN
     /\ r.ok
     /\ task' = [r.T EXCEPT ![t].pc = "pgather", ![t].fa = 0]
  /\ UNCHANGED <<nev, ev, q, unf, shut, hist, running, idle, semv, depth, lockq, nact, nx, xh, cur, o>>
GatherDone(t) == task[t].pc = "pgather" /\ \A k \in XTasksOfT(task, t) : task[XT(k)].pc = "done"
\* an interrupted execute_handler task of a parallel frame ends with the cancellation (its result is already recorded)
XAbandon(k) ==
  /\ cur = NoTask /\ k <= nx /\ (task[XT(k)].pc = "monx" \/ (task[XT(k)].pc = "mon" /\ task[XT(k)].canc))
  /\ task' = [task EXCEPT ![XT(k)].pc = "done", ![XT(k)].out = "cancel"]
  /\ UNCHANGED <<nev, ev, q, unf, shut, hist, running, idle, semv, depth, lockq, nact, nx, xh, cur, o>>

\* the interrupted owner's process_event (fix: F5): the handlers of the event that will never run get a cancellation error, then
\* the usual tail (completion mark, ancestors, history cleanup) runs and the cancellation travels on; no log / WAL line, and
\* the caller's task_done is the caller's business (probe line ProcX when the exception leaves process_event)
FailPending(x, b) == [x EXCEPT !.res = [i \in DOMAIN x.res |-> IF x.res[i].b = b /\ x.res[i].st = "pending"
                                                                THEN [x.res[i] EXCEPT !.st = "error", !.err = "Cancelled:pending"]
                                                                ELSE x.res[i]]]
AbandonFx(b, e) ==
  LET E0 == [ev EXCEPT ![e] = FailPending(@, b)]
      E1 == Mark(E0, e)
      E2 == MarkUp(E1, hist, e, {})
  IN [E |-> E2, H |-> [hist EXCEPT ![b] = Evict(E2, b, @)]]
OwnerAbandon(t) ==
  /\ cur = NoTask /\ t[1] = "h" /\ (task[t].pc = "monx" \/ (task[t].pc = "mon" /\ task[t].canc) \/ GatherDone(t))
  /\ LET fx == AbandonFx(task[t].fb, task[t].fe) IN
     /\ ev' = fx.E /\ hist' = fx.H
     /\ o' = Obs(ProcLineX("ProcX", t, task[t].fb, task[t].fe, "Cancelled"), fx.E, nev, fx.H, q)
  /\ task' = FreeX([task EXCEPT ![t].pc = "cancelled", ![t].fe = 0, ![t].fh = "", ![t].fa = 0, ![t].todo = <<>>], t)   \* (fb is kept for the task_done below)
  /\ UNCHANGED <<nev, q, unf, shut, running, idle, semv, depth, lockq, nact, nx, xh, cur>>

OwnerAbandonRL(b) ==   \* a cancelled run loop: process_event is abandoned (probe line ProcX) ...
  /\ cur = NoTask /\ task[RL(b)].canc /\ (task[RL(b)].pc \in {"monx", "mon"} \/ GatherDone(RL(b)))
  /\ LET t == RL(b)
         fx == AbandonFx(task[t].fb, task[t].fe) IN
     /\ ev' = fx.E /\ hist' = fx.H
     /\ o' = Obs(ProcLineX("ProcX", t, task[t].fb, task[t].fe, "Cancelled"), fx.E, nev, fx.H, q)
     /\ task' = FreeX([task EXCEPT ![t].pc = "dyingl", ![t].fe = 0, ![t].fb = "", ![t].fh = "", ![t].fa = 0, ![t].todo = <<>>], t)
  /\ cur' = RL(b)
  /\ UNCHANGED <<nev, q, unf, shut, running, idle, semv, depth, lockq, nact, nx, xh>>
RLDieLocked(b) ==      \* ... then step()'s `async with` leaves the lock and _run_loop's finally clears the running flag
  /\ cur = RL(b) /\ task[RL(b)].pc = "dyingl"
  /\ LET t == RL(b)
         rel == IF depth - 1 = 0 THEN Release(task) ELSE [sem |-> semv, lq |-> lockq, T |-> task] IN
     /\ task' = [rel.T EXCEPT ![t].pc = "dead", ![t].holds = FALSE]
     /\ semv' = rel.sem /\ depth' = depth - 1 /\ lockq' = rel.lq
     /\ running' = [running EXCEPT ![b] = FALSE]
  /\ cur' = NoTask
  /\ UNCHANGED <<nev, ev, q, unf, shut, hist, idle, nact, nx, xh, o>>

\* cancelling a run-loop task (stop() after its bounded wait, or asyncio.run() at exit): effect by where the task is suspended
Suspended(a) == task[HT(a)].pc \in {"sleep", "yield", "spin"}
CancelRLFx(b, T, LQ) ==
  LET t == RL(b)  pc == T[t].pc IN
  CASE pc \in {"none", "dead", "dying", "dyingt"} -> [T |-> T, lq |-> LQ, ok |-> TRUE]
    [] pc = "new"                        -> [T |-> [T EXCEPT ![t].pc = "dead"], lq |-> LQ, ok |-> TRUE]        \* never runs, not even its finally
    [] pc = "poll" /\ q[b] # <<>>        -> [T |-> [T EXCEPT ![t].pc = "dyingt"], lq |-> LQ, ok |-> TRUE]   \* the poll in flight still takes the head (and loses it)
    [] pc \in {"poll", "pollx", "got"}   -> [T |-> [T EXCEPT ![t].pc = "dying"], lq |-> LQ, ok |-> TRUE]
    [] pc = "lockwait"                   -> [T |-> [T EXCEPT ![t].pc = "dying"], lq |-> SelectSeq(LQ, LAMBDA x : x # t), ok |-> TRUE]
    [] pc \in {"waith", "pwait"}          -> LET r == CancelTask(T, t) IN [T |-> r.T, lq |-> LQ, ok |-> r.ok]
    [] pc \in {"hdone", "mon"}           -> [T |-> [T EXCEPT ![t].canc = TRUE], lq |-> LQ, ok |-> TRUE]
    [] OTHER                             -> [T |-> T, lq |-> LQ, ok |-> FALSE]      \* (granted / inside a stretch: not modelled)

\* handler timeouts (A.9): wait_for expires while the innermost handler of the chain is in a timed sleep
TimeoutFire(t) ==
  /\ cur = NoTask /\ task[t].pc = "waith" /\ task[t].fa # 0
  /\ ev[task[t].fe].ty \in TimeoutTypes
  /\ ~task[t].canc
  /\ LET ch == TChain(t)  inner == Last(ch)
         r == CancelTask(task, HT(task[t].fa)) IN
     /\ inner[1] = "h" /\ task[inner].pc = "sleep" /\ r.ok
     /\ task' = [r.T EXCEPT ![t].tout = TRUE]
  /\ UNCHANGED <<nev, ev, q, unf, shut, hist, running, idle, semv, depth, lockq, nact, nx, xh, cur, o>>

\* the cancelled handler's code sees CancelledError at its suspension point (await child / sleep) and ends
HCancelAw(a) ==
  /\ cur = NoTask /\ a <= nact /\ task[HT(a)].pc = "cancelled" /\ task[HT(a)].aw # 0
  /\ o' = Obs(Line("AwE") @@ [act |-> a, e |-> task[HT(a)].aw, canc |-> TRUE, same |-> TRUE], ev, nev, hist, q)
  /\ task' = [task EXCEPT ![HT(a)].aw = 0, ![HT(a)].fb = ""]
  \* on its way out of the inline loop: task_done() in the `finally` for the event it was processing (fix: F5, partial)
  /\ unf' = IF task[HT(a)].fb # "" THEN [unf EXCEPT ![task[HT(a)].fb] = @ - 1] ELSE unf
  /\ cur' = HT(a)
  /\ UNCHANGED <<nev, ev, q, shut, hist, running, idle, semv, depth, lockq, nact, nx, xh>>
HCancelExit(a) ==
  /\ a <= nact /\ task[HT(a)].pc = "cancelled" /\ task[HT(a)].aw = 0 /\ cur \in {NoTask, HT(a)} /\ task[HT(a)].out # "cl"
  /\ o' = Obs(Line("HExit") @@ [act |-> a, out |-> "cancel"], ev, nev, hist, q)
  /\ task' = [task EXCEPT ![HT(a)].pc = "done", ![HT(a)].out = "cancel", ![task[HT(a)].owner].pc = "hdone"]
  /\ cur' = NoTask
  /\ UNCHANGED <<nev, ev, q, unf, shut, hist, running, idle, semv, depth, lockq, nact, nx, xh>>
\* a handler with awaited clean-up (try / finally with awaits; scenario op `cl`, kept in `out` while it runs): after the cancellation it
\* goes on for a while (timed sleep) before its task really ends; whoever cancelled it waits for that
HSetCleanup(a) ==
  /\ cur = HT(a) /\ task[HT(a)].pc = "ops" /\ task[HT(a)].bud > 0 /\ WithSleep /\ task[HT(a)].out = ""
  /\ task' = [task EXCEPT ![HT(a)].bud = @ - 1, ![HT(a)].out = "cl"]
  /\ o' = Obs(Line("HOp") @@ [act |-> a, op |-> "cl"], ev, nev, hist, q)
  /\ UNCHANGED <<nev, ev, q, unf, shut, hist, running, idle, semv, depth, lockq, nact, nx, xh, cur>>
HCleanupBegin(a) ==
  /\ a <= nact /\ task[HT(a)].pc = "cancelled" /\ task[HT(a)].aw = 0 /\ cur \in {NoTask, HT(a)} /\ task[HT(a)].out = "cl"
  /\ o' = Obs(Line("HOp") @@ [act |-> a, op |-> "cleanup"], ev, nev, hist, q)
  /\ task' = [task EXCEPT ![HT(a)].pc = "cleanup"]
  /\ cur' = NoTask
  /\ UNCHANGED <<nev, ev, q, unf, shut, hist, running, idle, semv, depth, lockq, nact, nx, xh>>
HCleanupEnd(a) ==
  /\ cur = NoTask /\ a <= nact /\ task[HT(a)].pc = "cleanup"
  /\ o' = Obs(Line("HExit") @@ [act |-> a, out |-> "cancel"], ev, nev, hist, q)
  /\ task' = [task EXCEPT ![HT(a)].pc = "done", ![HT(a)].out = "cancel", ![task[HT(a)].owner].pc = "hdone"]
  /\ UNCHANGED <<nev, ev, q, unf, shut, hist, running, idle, semv, depth, lockq, nact, nx, xh, cur>>

\* tail of process_event (WAL off): mark complete, walk up the parents, history cleanup (probe line ProcE)
XTasksOf(t) == {k \in 1..nx : task[XT(k)].owner = t /\ task[XT(k)].pc # "free"}
IsWal(b) == LET r == BusRec(Cfg, b) IN "wal" \in DOMAIN r /\ r.wal
HandlersFinished(t) ==
  /\ task[t].fe # 0 /\ t[1] # "x"
  /\ \/ (cur = t /\ task[t].pc = "pb") \/ (cur = NoTask /\ task[t].pc = "mon" /\ ~task[t].canc)
     \/ (cur = NoTask /\ task[t].pc = "pwait" /\ ~task[t].canc /\ \A k \in XTasksOf(t) : task[XT(k)].pc = "done")
  /\ task[t].todo = <<>>
\* write-ahead log (C17): after the handlers, before the completion mark; open / write / close each suspend once; errors are swallowed
WalBegin(t) ==
  /\ HandlersFinished(t) /\ IsWal(task[t].fb)
  /\ task' = [task EXCEPT ![t].pc = "wal1"] /\ cur' = NoTask
  /\ UNCHANGED <<nev, ev, q, unf, shut, hist, running, idle, semv, depth, lockq, nact, nx, xh, o>>
WalOpen(t, fault) ==
  /\ cur = NoTask /\ task[t].pc = "wal1" /\ (fault => WithWalFaults)
  /\ IF fault
     THEN /\ o' = Obs(Line("WalFault") @@ [b |-> task[t].fb, e |-> task[t].fe, at |-> "open"], ev, nev, hist, q)
          /\ task' = [task EXCEPT ![t].pc = "pbt"] /\ cur' = t
     ELSE /\ task' = [task EXCEPT ![t].pc = "wal2"] /\ UNCHANGED <<o, cur>>
  /\ UNCHANGED <<nev, ev, q, unf, shut, hist, running, idle, semv, depth, lockq, nact, nx, xh>>
WalWrite(t, fault) ==
  /\ cur = NoTask /\ task[t].pc = "wal2" /\ (fault => WithWalFaults)
  /\ o' = Obs(Line(IF fault THEN "WalFault" ELSE "Wal") @@ [b |-> task[t].fb, e |-> task[t].fe, at |-> "write"], ev, nev, hist, q)
  /\ task' = [task EXCEPT ![t].pc = "wal3"]
  /\ UNCHANGED <<nev, ev, q, unf, shut, hist, running, idle, semv, depth, lockq, nact, nx, xh, cur>>
WalClose(t) ==
  /\ cur = NoTask /\ task[t].pc = "wal3"
  /\ task' = [task EXCEPT ![t].pc = "pbt"] /\ cur' = t
  /\ UNCHANGED <<nev, ev, q, unf, shut, hist, running, idle, semv, depth, lockq, nact, nx, xh, o>>

OwnerTail(t) ==
  /\ \/ HandlersFinished(t) /\ ~IsWal(task[t].fb)
     \/ cur = t /\ task[t].pc = "pbt"
  /\ LET b == task[t].fb  e == task[t].fe
         E1 == Mark(ev, e)
         E2 == MarkUp(E1, hist, e, {})
         H1 == [hist EXCEPT ![b] = Evict(E2, b, @)]
     IN /\ ev' = E2 /\ hist' = H1
        /\ o' = Obs(ProcLine("ProcE", t, b, e), E2, nev, H1, q)
  /\ task' = [task EXCEPT ![t].pc = "tail"]
  /\ cur' = t
  /\ UNCHANGED <<nev, q, unf, shut, running, idle, semv, depth, lockq, nact, nx, xh>>

\* what the caller of process_event does next: task_done; the run loop also leaves the lock, checks idle and polls again
OwnerEpilogue(t) ==
  /\ cur = t /\ task[t].pc = "tail"
  /\ LET b == task[t].fb IN
     /\ unf' = [unf EXCEPT ![b] = @ - 1]                       \* task_done()
     /\ IF t[1] = "rl"
        THEN LET rel == IF depth - 1 = 0 THEN Release(task) ELSE [sem |-> semv, lq |-> lockq, T |-> task] IN
             /\ depth' = depth - 1 /\ semv' = rel.sem /\ lockq' = rel.lq
             /\ task' = FreeX([rel.T EXCEPT ![t].pc = IF running[b] THEN "poll" ELSE "dead", ![t].holds = (depth - 1 # 0), ![t].e = 0, ![t].fe = 0, ![t].fb = "", ![t].fh = "", ![t].fa = 0], t)
             /\ idle' = [idle EXCEPT ![b] = IF BusyOn(ev, hist, q, b) THEN @ ELSE TRUE]
             /\ cur' = NoTask
        ELSE \* inline loop of BaseEvent.__await__: back in the loop, same stretch
             /\ task' = FreeX([task EXCEPT ![t].pc = "inl", ![t].fe = 0, ![t].fb = "", ![t].fh = "", ![t].fa = 0], t)
             /\ cur' = t
             /\ UNCHANGED <<depth, semv, lockq, idle>>
  /\ UNCHANGED <<nev, ev, q, shut, hist, running, nact, nx, xh, o>>

\* ------------------------------------------------------------------------
\* handler tasks: the most general scenario handler
\* ------------------------------------------------------------------------
HEnterLine(a) == LET x == task[HT(a)] IN
  Line("HEnter") @@ [act |-> a, b |-> x.b, e |-> x.e, h |-> x.h, byk |-> TaskLabelKind(x.owner), bya |-> IF FrameOwner(x.owner)[1] = "h" THEN FrameOwner(x.owner)[2] ELSE 0,
                     rb |-> x.b, sync |-> FALSE, tmo |-> -1]       \* event.event_bus = the bus running the handler (fix: F9)

HStart(a) ==
  /\ cur = NoTask /\ a <= nact /\ task[HT(a)].pc = "new" /\ FirstBorn(HT(a))
  /\ task' = [task EXCEPT ![HT(a)].pc = "ops"]
  /\ cur' = HT(a)
  /\ o' = Obs(HEnterLine(a), ev, nev, hist, q)
  /\ UNCHANGED <<nev, ev, q, unf, shut, hist, running, idle, semv, depth, lockq, nact, nx, xh>>

HWake(a) ==    \* resumes after sleep(0) / sleep(d)
  /\ cur = NoTask /\ a <= nact /\ task[HT(a)].pc \in {"yield", "sleep"}
  /\ task' = [task EXCEPT ![HT(a)].pc = "ops"]
  /\ cur' = HT(a)
  /\ o' = Obs(Line("HOp") @@ [act |-> a, op |-> IF task[HT(a)].pc = "yield" THEN "y" ELSE "s"], ev, nev, hist, q)
  /\ UNCHANGED <<nev, ev, q, unf, shut, hist, running, idle, semv, depth, lockq, nact, nx, xh>>

InOps(a) == cur = HT(a) /\ task[HT(a)].pc = "ops"

HDispatch(a, b, ty) ==
  /\ InOps(a) /\ task[HT(a)].bud > 0 /\ nev < MaxEv /\ task[HT(a)].lvl < MaxDepth
  /\ LET x == task[HT(a)]  e == nev + 1
         d == DispatchFx(b, e, x.e, x.h, x.b, TRUE, ev, TRUE, ty, x.lvl + 1) IN
     /\ nev' = e
     /\ ev' = d.E /\ q' = d.Q /\ unf' = d.U /\ hist' = d.H /\ running' = d.R /\ idle' = d.I
     /\ task' = [d.T EXCEPT ![HT(a)].bud = @ - 1, ![HT(a)].kids = Append(@, IF d.out = "ok" THEN e ELSE 0)]
     /\ o' = Obs(DispLine(b, e, ty, d.out, a, 0, FALSE), d.E, e, d.H, d.Q)
  /\ UNCHANGED <<shut, semv, depth, lockq, nact, nx, xh, cur>>

\* the handler dispatches its *own* event again (same object), to its own bus or to another one: no new event, no parent / child link
\* (the dispatcher is the event itself); the event is queued again and every bus it reaches only runs the handlers it has no result for
HRedispatch(a, b) ==
  /\ InOps(a) /\ task[HT(a)].bud > 0
  /\ LET x == task[HT(a)]  e == x.e
         d == DispatchFx(b, e, x.e, x.h, x.b, TRUE, ev, FALSE, ev[e].ty, ev[e].lvl) IN
     /\ ev' = d.E /\ q' = d.Q /\ unf' = d.U /\ hist' = d.H /\ running' = d.R /\ idle' = d.I
     /\ task' = [d.T EXCEPT ![HT(a)].bud = @ - 1]
     /\ o' = Obs(DispLine(b, e, ev[e].ty, d.out, a, 0, FALSE), d.E, nev, d.H, d.Q)
  /\ UNCHANGED <<nev, shut, semv, depth, lockq, nact, nx, xh, cur>>

HSuspend(a, how) ==   \* sleep(0) ("yield") or a timed sleep
  /\ InOps(a) /\ task[HT(a)].bud > 0
  /\ how = "sleep" => WithSleep
  \* (a handler that has cancelled its own run loop - stop() of its own bus - carries a pending cancellation: it is delivered here)
  /\ task' = [task EXCEPT ![HT(a)].bud = @ - 1, ![HT(a)].pc = IF task[HT(a)].canc THEN "cancelled" ELSE how]
  /\ cur' = NoTask
  /\ UNCHANGED <<nev, ev, q, unf, shut, hist, running, idle, semv, depth, lockq, nact, nx, xh, o>>

HAwaitBegin(a, k) ==
  /\ InOps(a) /\ task[HT(a)].bud > 0 /\ k \in DOMAIN task[HT(a)].kids /\ task[HT(a)].kids[k] # 0 /\ ~task[HT(a)].canc
  /\ task' = [task EXCEPT ![HT(a)].bud = @ - 1, ![HT(a)].aw = task[HT(a)].kids[k], ![HT(a)].pc = "inl"]
  /\ o' = Obs(Line("AwB") @@ [act |-> a, e |-> task[HT(a)].kids[k]], ev, nev, hist, q)
  /\ UNCHANGED <<nev, ev, q, unf, shut, hist, running, idle, semv, depth, lockq, nact, nx, xh, cur>>

InInl(a) == cur = HT(a) /\ task[HT(a)].pc = "inl"

AwELine(a) == Line("AwE") @@ [act |-> a, e |-> task[HT(a)].aw, canc |-> FALSE, same |-> TRUE]
HAwaitDone(a) ==   \* the awaited event's signal is set: the await returns
  /\ InInl(a) /\ ev[task[HT(a)].aw].sig
  /\ task' = [task EXCEPT ![HT(a)].pc = "ops", ![HT(a)].aw = 0]
  /\ o' = Obs(AwELine(a), ev, nev, hist, q)
  /\ UNCHANGED <<nev, ev, q, unf, shut, hist, running, idle, semv, depth, lockq, nact, nx, xh, cur>>

\* inline loop: take the HEAD of some non-empty queue and process it in this very task (finding F0)
InlineTake(a, b) ==
  /\ InInl(a) /\ ~ev[task[HT(a)].aw].sig /\ q[b] # <<>>
  /\ LET t == HT(a)  e == Head(q[b])
         Q1 == [q EXCEPT ![b] = Tail(@)] IN
     /\ q' = Q1
     /\ task' = [task EXCEPT ![t].pc = "pb0", ![t].fb = b, ![t].fe = e, ![t].todo = <<>>, ![t].fh = "", ![t].fa = 0]
     /\ o' = Obs(ProcLine("ProcB", t, b, e), ev, nev, hist, Q1)
  /\ UNCHANGED <<nev, ev, unf, shut, hist, running, idle, semv, depth, lockq, nact, nx, xh, cur>>

\* can some other task take a step without time passing?  (1000 zero-sleeps exhaust all of those)
ZeroTimeRunnable(t) ==
  \E u \in Tasks \ {t} :
     \/ task[u].pc \in {"new", "got", "granted", "hdone", "mon", "monx", "cancelled", "pollx", "dying", "dyingt", "wal1", "wal2", "wal3", "yield", "spin", "xnew", "idle_yield"}
     \/ task[u].pc = "pwait" /\ \A k \in XTasksOf(u) : task[XT(k)].pc = "done"
     \/ u[1] = "rl" /\ task[u].pc = "poll" /\ q[u[2]] # <<>>
     \/ u[1] = "d" /\ task[u].pc = "xaw" /\ ev[task[u].aw].sig
     \/ u[1] = "d" /\ task[u].pc = "idle_join" /\ unf[task[u].b] = 0
     \/ u[1] = "d" /\ task[u].pc = "idle_flag" /\ idle[task[u].b]
     \/ u[1] = "d" /\ task[u].pc = "exp_wait" /\ xh[task[u].e].st = "got"
\* an external driver between two of its steps may or may not be about to act without time passing (it may be yielding)
DriverMayAct(t) == \E u \in Tasks \ {t} : u[1] = "d" /\ task[u].pc = "run" /\ task[u].bud > 0

InlineSpin(a) ==   \* nothing queued anywhere: sleep(0)
  /\ InInl(a) /\ ~ev[task[HT(a)].aw].sig /\ \A b \in B : q[b] = <<>>
  /\ ZeroTimeRunnable(HT(a)) \/ DriverMayAct(HT(a))
  /\ task' = [task EXCEPT ![HT(a)].pc = "spin"]
  /\ cur' = NoTask
  /\ UNCHANGED <<nev, ev, q, unf, shut, hist, running, idle, semv, depth, lockq, nact, nx, xh, o>>

SpinWake(a) ==
  /\ cur = NoTask /\ a <= nact /\ task[HT(a)].pc = "spin"
  /\ task' = [task EXCEPT ![HT(a)].pc = "inl"]
  /\ cur' = HT(a)
  /\ UNCHANGED <<nev, ev, q, unf, shut, hist, running, idle, semv, depth, lockq, nact, nx, xh, o>>

InlineGiveUp(a) ==  \* 1000 fruitless passes: falls through and returns the event as it is (finding F1)
  /\ InInl(a) /\ ~ev[task[HT(a)].aw].sig /\ \A b \in B : q[b] = <<>>
  /\ ~ZeroTimeRunnable(HT(a))
  /\ task' = [task EXCEPT ![HT(a)].pc = "ops", ![HT(a)].aw = 0]
  /\ o' = Obs(AwELine(a), ev, nev, hist, q)
  /\ UNCHANGED <<nev, ev, q, unf, shut, hist, running, idle, semv, depth, lockq, nact, nx, xh, cur>>

HFinish(a, out) ==  \* return / raise: the handler task ends, its owner is woken
  /\ \/ InOps(a) /\ out \in {"ret"} \cup (IF WithErrors /\ ~task[HT(a)].canc THEN {"raise"} ELSE {})
     \/ cur = HT(a) /\ task[HT(a)].pc = "raising" /\ out = "raise"
  \* (asyncio: a task whose coroutine returns while a cancellation is pending ends *cancelled*, its return value is dropped)
  /\ task' = [task EXCEPT ![HT(a)].pc = "done", ![HT(a)].out = IF task[HT(a)].canc /\ out = "ret" THEN "cancel" ELSE out, ![task[HT(a)].owner].pc = "hdone"]
  /\ cur' = NoTask
  /\ o' = Obs(Line("HExit") @@ [act |-> a, out |-> out], ev, nev, hist, q)
  /\ UNCHANGED <<nev, ev, q, unf, shut, hist, running, idle, semv, depth, lockq, nact, nx, xh>>

\* stop() called from inside a handler (A.11): same steps as a driver's stop(); when the bus is the handler's own, the run loop that is
\* cancelled after the bounded wait is waiting for this very handler, so the cancellation comes back to the caller (pending until its
\* next suspension).  The caller id of the StopB / StopE lines is 1000 + activation.
\* stop(timeout > 0) of a driver (DStopBeginT below) first runs wait_until_idle(timeout).  The model has no variable for the bus's reference
\* to its run-loop task (dropped by the first stop() that finishes), which only matters when stop() calls on one bus overlap and one of
\* them is timed: those overlaps are left out (an under-approximation, stated in DESIGN.md 12.3)
TimedStopOn(b) == \E j \in 1..NDrv : task[DT(j)].h = "stop" /\ task[DT(j)].b = b
AnyStopOn(b) == \/ TimedStopOn(b)
                \/ \E j \in 1..NDrv : task[DT(j)].pc \in {"stop_go", "stop_wait"} /\ task[DT(j)].b = b
                \/ \E a \in 1..MaxAct : task[HT(a)].pc \in {"hstop_go", "hstop_wait"} /\ task[HT(a)].fh = b
HStopBegin(a, b) ==
  /\ WithStop /\ InOps(a) /\ task[HT(a)].bud > 0 /\ ~TimedStopOn(b)
  /\ task' = [task EXCEPT ![HT(a)].bud = @ - 1, ![HT(a)].pc = "hstop_go", ![HT(a)].fh = b]
  /\ o' = Obs(Line("StopB") @@ [d |-> 1000 + a, b |-> b, tmo |-> -1, running |-> running[b]], ev, nev, hist, q)
  /\ UNCHANGED <<nev, ev, q, unf, shut, hist, running, idle, semv, depth, lockq, nact, nx, xh, cur>>
HStopGo(a) ==
  /\ cur = HT(a) /\ task[HT(a)].pc = "hstop_go"
  /\ LET b == task[HT(a)].fh IN
     IF ~running[b]
     THEN /\ task' = [task EXCEPT ![HT(a)].pc = "ops", ![HT(a)].fh = ""]
          /\ o' = Obs(Line("StopE") @@ [d |-> 1000 + a, b |-> b, exc |-> ""], ev, nev, hist, q)
          /\ UNCHANGED <<running, shut, idle, cur>>
     ELSE /\ running' = [running EXCEPT ![b] = FALSE] /\ shut' = [shut EXCEPT ![b] = TRUE]
          /\ task' = [task EXCEPT ![HT(a)].pc = "hstop_wait", ![RL(b)].pc = IF @ = "poll" /\ q[b] = <<>> THEN "pollx" ELSE @]
          /\ cur' = NoTask
          /\ UNCHANGED <<idle, o>>
  /\ UNCHANGED <<nev, ev, q, unf, hist, semv, depth, lockq, nact, nx, xh>>
HStopWaitEnd(a) ==
  /\ cur = NoTask /\ task[HT(a)].pc = "hstop_wait"
  /\ LET b == task[HT(a)].fh
         c == CancelRLFx(b, [task EXCEPT ![HT(a)].pc = "hstop_run"], lockq) IN
     /\ c.ok
     /\ task' = [c.T EXCEPT ![HT(a)].pc = "ops", ![HT(a)].fh = ""]
     /\ lockq' = c.lq
     /\ idle' = [idle EXCEPT ![b] = TRUE]
     /\ o' = Obs(Line("StopE") @@ [d |-> 1000 + a, b |-> b, exc |-> ""], ev, nev, hist, q)
  /\ cur' = HT(a)
  /\ UNCHANGED <<nev, ev, q, unf, shut, hist, running, semv, depth, nact, nx, xh>>

\* ------------------------------------------------------------------------
\* external drivers
\* ------------------------------------------------------------------------
DRun(i) == cur = NoTask /\ task[DT(i)].pc = "run" /\ task[DT(i)].bud > 0

DDispatchN(i, b, ty, n) ==
  /\ DRun(i) /\ nev < MaxEv
  /\ LET e == nev + 1
         d == DispatchFxN(b, e, 0, "", "", FALSE, ev, TRUE, ty, 0, n) IN
     /\ nev' = e /\ ev' = d.E /\ q' = d.Q /\ unf' = d.U /\ hist' = d.H /\ running' = d.R /\ idle' = d.I
     /\ task' = [d.T EXCEPT ![DT(i)].bud = @ - 1, ![DT(i)].kids = Append(@, IF d.out = "ok" THEN e ELSE 0)]
     /\ o' = Obs([DispLine(b, e, ty, d.out, 0, i, FALSE) EXCEPT !.n = n], d.E, e, d.H, d.Q)
  /\ UNCHANGED <<shut, semv, depth, lockq, nact, nx, xh, cur>>
DDispatch(i, b, ty) == DDispatchN(i, b, ty, -1)

DRedispatch(i, e, b) ==   \* ordinary code dispatches an existing root event (same object) again
  /\ DRun(i) /\ e \in 1..nev /\ ev[e].lvl = 0 /\ ev[e].par = 0
  /\ LET d == DispatchFx(b, e, 0, "", "", FALSE, ev, FALSE, ev[e].ty, 0) IN
     /\ ev' = d.E /\ q' = d.Q /\ unf' = d.U /\ hist' = d.H /\ running' = d.R /\ idle' = d.I
     /\ task' = [d.T EXCEPT ![DT(i)].bud = @ - 1]
     /\ o' = Obs([DispLine(b, e, ev[e].ty, d.out, 0, i, FALSE) EXCEPT !.n = ev[e].n], d.E, nev, d.H, d.Q)
  /\ UNCHANGED <<nev, shut, semv, depth, lockq, nact, nx, xh, cur>>

DAwaitBegin(i, k) ==   \* await event from ordinary code: waits on the completion signal
  /\ DRun(i) /\ k \in DOMAIN task[DT(i)].kids /\ task[DT(i)].kids[k] # 0
  /\ task' = [task EXCEPT ![DT(i)].bud = @ - 1, ![DT(i)].aw = task[DT(i)].kids[k], ![DT(i)].pc = "xaw"]
  /\ o' = Obs(Line("XAwB") @@ [d |-> i, e |-> task[DT(i)].kids[k]], ev, nev, hist, q)
  /\ UNCHANGED <<nev, ev, q, unf, shut, hist, running, idle, semv, depth, lockq, nact, nx, xh, cur>>

DAwaitEnd(i) ==        \* the waiter is woken some hops after the signal was set: the state may have moved on
  /\ cur = NoTask /\ task[DT(i)].pc = "xaw" /\ ev[task[DT(i)].aw].sig
  /\ task' = [task EXCEPT ![DT(i)].pc = "run", ![DT(i)].aw = 0]
  /\ o' = Obs(Line("XAwE") @@ [d |-> i, e |-> task[DT(i)].aw, same |-> TRUE, exc |-> ""], ev, nev, hist, q)
  /\ UNCHANGED <<nev, ev, q, unf, shut, hist, running, idle, semv, depth, lockq, nact, nx, xh, cur>>

\* wait_until_idle (A.10), phases: join -> flag -> yield -> recheck (-> flag ...)
DIdleBegin(i, b, timed) ==   \* timed: the call has a timeout argument; when it expires the call returns normally (the TimeoutError is caught inside)
  /\ WithIdle /\ DRun(i)
  /\ task' = [task EXCEPT ![DT(i)].bud = @ - 1, ![DT(i)].pc = "idle_start", ![DT(i)].b = b, ![DT(i)].tout = timed]
  /\ cur' = DT(i)
  /\ o' = Obs(Line("IdleB") @@ [d |-> i, b |-> b, tmo |-> IF timed THEN 0 ELSE -1], ev, nev, hist, q)
  /\ UNCHANGED <<nev, ev, q, unf, shut, hist, running, idle, semv, depth, lockq, nact, nx, xh>>
DIdleStart(i) ==   \* wait_until_idle() begins with _start(); then it suspends in wait_for(queue.join())
  /\ cur = DT(i) /\ task[DT(i)].pc = "idle_start"
  /\ LET b == task[DT(i)].b
         T1 == IF running[b] \/ task[RL(b)].pc \notin {"none", "dead"} THEN task ELSE [task EXCEPT ![RL(b)] = [T0 EXCEPT !.pc = "new", !.b = b, !.born = Born + 1]] IN
     /\ task' = [T1 EXCEPT ![DT(i)].pc = "idle_join"]
     /\ running' = [running EXCEPT ![b] = TRUE]
  /\ cur' = NoTask
  /\ UNCHANGED <<nev, ev, q, unf, shut, hist, idle, semv, depth, lockq, nact, nx, xh, o>>
DIdleJoin(i) ==
  /\ cur = NoTask /\ task[DT(i)].pc = "idle_join" /\ unf[task[DT(i)].b] = 0
  /\ task' = [task EXCEPT ![DT(i)].pc = "idle_flag"]
  /\ UNCHANGED <<nev, ev, q, unf, shut, hist, running, idle, semv, depth, lockq, nact, nx, xh, cur, o>>
DIdleFlag(i) ==
  /\ cur = NoTask /\ task[DT(i)].pc = "idle_flag" /\ idle[task[DT(i)].b]
  /\ task' = [task EXCEPT ![DT(i)].pc = "idle_yield"]
  /\ UNCHANGED <<nev, ev, q, unf, shut, hist, running, idle, semv, depth, lockq, nact, nx, xh, cur, o>>
DIdleTimeout(i) ==   \* the timeout of a timed wait_until_idle() expires in any of its waiting phases
  /\ cur = NoTask /\ task[DT(i)].tout /\ task[DT(i)].pc \in {"idle_join", "idle_flag"}
  /\ IF task[DT(i)].h = "stop"       \* inside stop(timeout > 0): the same stretch goes on with the shutdown
     THEN /\ task' = [task EXCEPT ![DT(i)].pc = "stop_body", ![DT(i)].tout = FALSE]
          /\ cur' = DT(i) /\ o' = o
     ELSE /\ task' = [task EXCEPT ![DT(i)].pc = "run", ![DT(i)].b = "", ![DT(i)].tout = FALSE]
          /\ cur' = cur
          /\ o' = Obs(Line("IdleE") @@ [d |-> i, b |-> task[DT(i)].b, exc |-> "", qn |-> Len(q[task[DT(i)].b])], ev, nev, hist, q)
  /\ UNCHANGED <<nev, ev, q, unf, shut, hist, running, idle, semv, depth, lockq, nact, nx, xh>>
DIdleRecheck(i) ==
  /\ cur = NoTask /\ task[DT(i)].pc = "idle_yield"
  /\ LET b == task[DT(i)].b IN
     IF ~idle[b] \/ (\E x \in Range(hist[b]) : Status(ev[x]) \in {"pending", "started"}) \/ q[b] # <<>>     \* (fix: G5 adds the queue test)
     THEN /\ idle' = [idle EXCEPT ![b] = FALSE]
          /\ task' = [task EXCEPT ![DT(i)].pc = "idle_flag"]
          /\ o' = o /\ cur' = cur
     ELSE IF task[DT(i)].h = "stop"
     THEN /\ idle' = idle
          /\ task' = [task EXCEPT ![DT(i)].pc = "stop_body", ![DT(i)].tout = FALSE]
          /\ o' = o /\ cur' = DT(i)
     ELSE /\ idle' = idle
          /\ task' = [task EXCEPT ![DT(i)].pc = "run", ![DT(i)].b = "", ![DT(i)].tout = FALSE]
          /\ o' = Obs(Line("IdleE") @@ [d |-> i, b |-> b, exc |-> "", qn |-> Len(q[b])], ev, nev, hist, q)
          /\ cur' = cur
  /\ UNCHANGED <<nev, ev, q, unf, shut, hist, running, semv, depth, lockq, nact, nx, xh>>

\* expect() (A.12): a temporary handler under the type's key, a future, an optional timeout; the handler is removed in every outcome
DExpectBegin(i, b, ty, inc, exc, timed) ==
  /\ WithExpect /\ DRun(i) /\ Len(xh) < MaxExpect
  /\ task' = [task EXCEPT ![DT(i)].bud = @ - 1, ![DT(i)].pc = "exp_go", ![DT(i)].b = b, ![DT(i)].tout = timed, ![DT(i)].h = ty, ![DT(i)].out = inc, ![DT(i)].fh = exc]
  /\ cur' = DT(i)
  /\ o' = Obs(Line("ExpB") @@ [d |-> i, x |-> Len(xh) + 1, b |-> b, ty |-> ty, inc |-> inc, exc |-> exc, tmo |-> IF timed THEN 0 ELSE -1], ev, nev, hist, q)
  /\ UNCHANGED <<nev, ev, q, unf, shut, hist, running, idle, semv, depth, lockq, nact, nx, xh>>
DExpectGo(i) ==       \* registration, then the call suspends on its future
  /\ cur = DT(i) /\ task[DT(i)].pc = "exp_go"
  /\ xh' = Append(xh, [x |-> Len(xh) + 1, d |-> i, b |-> task[DT(i)].b, ty |-> task[DT(i)].h, inc |-> task[DT(i)].out, exc |-> task[DT(i)].fh, st |-> "wait", e |-> 0])
  /\ task' = [task EXCEPT ![DT(i)].pc = "exp_wait", ![DT(i)].e = Len(xh) + 1]
  /\ cur' = NoTask
  /\ UNCHANGED <<nev, ev, q, unf, shut, hist, running, idle, semv, depth, lockq, nact, nx, o>>
DExpectEnd(i, timeout) ==  \* the future was resolved, or the timeout expired first; finally: the handler is removed
  /\ cur = NoTask /\ task[DT(i)].pc = "exp_wait"
  /\ LET k == task[DT(i)].e  x == xh[k] IN
     /\ IF timeout THEN task[DT(i)].tout /\ x.st = "wait" ELSE x.st = "got"
     /\ xh' = [xh EXCEPT ![k].st = "gone"]
     /\ o' = ObsX(Line("ExpE") @@ [d |-> i, x |-> k, b |-> x.b, e |-> IF timeout THEN 0 ELSE x.e, err |-> IF timeout THEN "Timeout" ELSE ""], ev, nev, hist, q,
                  [xh EXCEPT ![k].st = "gone"])
  /\ task' = [task EXCEPT ![DT(i)].pc = "run", ![DT(i)].b = "", ![DT(i)].tout = FALSE, ![DT(i)].h = "", ![DT(i)].out = "", ![DT(i)].fh = "", ![DT(i)].e = 0]
  /\ UNCHANGED <<nev, ev, q, unf, shut, hist, running, idle, semv, depth, lockq, nact, nx, cur>>

\* bus.on(pattern, handler) at run time: the handler is appended to its pattern's list and is selected for every event whose
\* processing on that bus begins afterwards
LateUnregistered == {h \in Range(Cfg.handlers) : IsLate(h) /\ ~\E k \in DOMAIN xh : xh[k].st = "on" /\ xh[k].inc = h.id}
DRegister(i, hid) ==
  /\ DRun(i) /\ \E h \in LateUnregistered : h.id = hid
  /\ LET h == HRec(hid)
         X == Append(xh, [x |-> Len(xh) + 1, d |-> i, b |-> h.bus, ty |-> h.pat, inc |-> hid, exc |-> "", st |-> "on", e |-> 0]) IN
     /\ xh' = X
     /\ o' = ObsX(Line("Reg") @@ [d |-> i, x |-> Len(xh) + 1, b |-> h.bus, h |-> hid, pat |-> h.pat], ev, nev, hist, q, X)
  /\ task' = [task EXCEPT ![DT(i)].bud = @ - 1]
  /\ UNCHANGED <<nev, ev, q, unf, shut, hist, running, idle, semv, depth, lockq, nact, nx, cur>>

\* stop(timeout = None / 0) (A.11) and cancellation of the bus's background task
DStopBegin(i, b) ==
  /\ WithStop /\ DRun(i) /\ ~TimedStopOn(b)
  /\ task' = [task EXCEPT ![DT(i)].bud = @ - 1, ![DT(i)].pc = "stop_go", ![DT(i)].b = b]
  /\ cur' = DT(i)
  /\ o' = Obs(Line("StopB") @@ [d |-> i, b |-> b, tmo |-> -1, running |-> running[b]], ev, nev, hist, q)
  /\ UNCHANGED <<nev, ev, q, unf, shut, hist, running, idle, semv, depth, lockq, nact, nx, xh>>
StopELine(i, b) == Line("StopE") @@ [d |-> i, b |-> b, exc |-> ""]
DStopGo(i) ==
  /\ cur = DT(i) /\ task[DT(i)].pc = "stop_go"
  /\ LET b == task[DT(i)].b IN
     IF ~running[b]
     THEN /\ task' = [task EXCEPT ![DT(i)].pc = "run", ![DT(i)].b = ""]
          /\ o' = Obs(StopELine(i, b), ev, nev, hist, q)
          /\ UNCHANGED <<running, shut, idle>>
     ELSE \* flag down, queue shut down (a polling run loop is woken with QueueShutDown), then wait <= 0.1 s for the task
          /\ running' = [running EXCEPT ![b] = FALSE] /\ shut' = [shut EXCEPT ![b] = TRUE]
          /\ task' = [task EXCEPT ![DT(i)].pc = "stop_wait", ![RL(b)].pc = IF @ = "poll" /\ q[b] = <<>> THEN "pollx" ELSE @]   \* (a non-empty queue is still handed to the poll in flight)
          /\ UNCHANGED <<idle, o>>
  /\ cur' = NoTask
  /\ UNCHANGED <<nev, ev, q, unf, hist, semv, depth, lockq, nact, nx, xh>>
\* stop(timeout > 0): a bus found running is first waited for with wait_until_idle(timeout) (whose TimeoutError never leaves it); whatever
\* that wait found, the shutdown follows in the same stretch - without looking at the running flag again
DStopBeginT(i, b) ==
  /\ WithStop /\ WithIdle /\ WithTimedStop /\ DRun(i) /\ ~AnyStopOn(b)
  /\ task' = [task EXCEPT ![DT(i)].bud = @ - 1, ![DT(i)].pc = IF running[b] THEN "idle_start" ELSE "stop_go", ![DT(i)].b = b,
                          ![DT(i)].tout = running[b], ![DT(i)].h = IF running[b] THEN "stop" ELSE ""]
  /\ cur' = DT(i)
  /\ o' = Obs(Line("StopB") @@ [d |-> i, b |-> b, tmo |-> 1, running |-> running[b]], ev, nev, hist, q)
  /\ UNCHANGED <<nev, ev, q, unf, shut, hist, running, idle, semv, depth, lockq, nact, nx, xh>>
DStopBody(i) ==
  /\ cur = DT(i) /\ task[DT(i)].pc = "stop_body"
  /\ LET b == task[DT(i)].b IN
     /\ running' = [running EXCEPT ![b] = FALSE] /\ shut' = [shut EXCEPT ![b] = TRUE]
     /\ IF task[RL(b)].pc \in {"none", "dead"}      \* no run-loop task left to wait for
        THEN /\ task' = [task EXCEPT ![DT(i)].pc = "run", ![DT(i)].b = "", ![DT(i)].h = ""]
             /\ idle' = [idle EXCEPT ![b] = TRUE]
             /\ o' = Obs(StopELine(i, b), ev, nev, hist, q)
        ELSE /\ task' = [task EXCEPT ![DT(i)].pc = "stop_wait", ![DT(i)].h = "", ![RL(b)].pc = IF @ = "poll" /\ q[b] = <<>> THEN "pollx" ELSE @]
             /\ UNCHANGED <<idle, o>>
  /\ cur' = NoTask
  /\ UNCHANGED <<nev, ev, q, unf, hist, semv, depth, lockq, nact, nx, xh>>
DStopWaitEnd(i) ==    \* the run loop ended (at once) or 0.1 s passed: cancel it, drop the reference, set the idle flag, return
  /\ cur = NoTask /\ task[DT(i)].pc = "stop_wait"
  /\ LET b == task[DT(i)].b
         c == CancelRLFx(b, task, lockq) IN
     /\ c.ok
     /\ task' = [c.T EXCEPT ![DT(i)].pc = "run", ![DT(i)].b = ""]
     /\ lockq' = c.lq
     /\ idle' = [idle EXCEPT ![b] = TRUE]
     /\ o' = Obs(StopELine(i, b), ev, nev, hist, q)
  /\ UNCHANGED <<nev, ev, q, unf, shut, hist, running, semv, depth, nact, nx, xh, cur>>
DCancelRL(i, b) ==    \* what asyncio.run() does to every pending task at exit
  /\ WithStop /\ DRun(i)
  /\ LET c == CancelRLFx(b, task, lockq) IN
     /\ c.ok
     /\ task' = [c.T EXCEPT ![DT(i)].bud = @ - 1]
     /\ lockq' = c.lq
  /\ o' = Obs(Line("CancelRL") @@ [d |-> i, b |-> b, had |-> task[RL(b)].pc \notin {"none", "dead"}], ev, nev, hist, q)
  /\ UNCHANGED <<nev, ev, q, unf, shut, hist, running, idle, semv, depth, nact, nx, xh, cur>>

\* ------------------------------------------------------------------------
NextCore ==
  \/ \E b \in B : RLStart(b) \/ RLTake(b) \/ RLPollIdle(b) \/ RLBegin(b) \/ RLGranted(b)
  \/ \E b \in B : RLDrop(b) \/ RLPollExit(b) \/ RLDie(b) \/ RLShutExit(b) \/ OwnerAbandonRL(b) \/ RLDieLocked(b) \/ RLTakeDying(b)
  \/ \E t \in Tasks : SyncFinish(t, "ret") \/ SyncFinish(t, "raise") \/ SyncReturn(t) \/ (\E b \in B : \E ty \in Range(Types) : SyncDispatch(t, b, ty))
  \/ \E t \in Tasks : ParStart(t) \/ OwnerAbandon(t) \/ TimeoutFire(t)
  \/ \E t \in Tasks : WalBegin(t) \/ WalClose(t) \/ (\E f \in BOOLEAN : WalOpen(t, f) \/ WalWrite(t, f))
  \/ \E a \in 1..MaxAct : HCancelAw(a) \/ HCancelExit(a) \/ HSetCleanup(a) \/ HCleanupBegin(a) \/ HCleanupEnd(a)
  \/ \E k \in 1..MaxAct : XStart(k) \/ XEnd(k) \/ XAbandon(k)
  \/ \E t \in Tasks : PCancelWake(t)
  \/ \E t \in Tasks : FwdReturn(t) \/ OwnerAbort(t) \/ ProcSelect(t) \/ OwnerNext(t) \/ OwnerResume(t) \/ OwnerTail(t) \/ OwnerEpilogue(t)
  \/ \E a \in 1..MaxAct :
        \/ HStart(a) \/ HWake(a) \/ HAwaitDone(a) \/ InlineSpin(a) \/ SpinWake(a) \/ InlineGiveUp(a)
        \/ HSuspend(a, "yield") \/ HSuspend(a, "sleep") \/ HFinish(a, "ret") \/ HFinish(a, "raise")
        \/ \E b \in B : InlineTake(a, b) \/ (WithRedispatch /\ HRedispatch(a, b)) \/ \E ty \in Range(Types) : HDispatch(a, b, ty)
        \/ \E k \in 1..MaxEv : HAwaitBegin(a, k)
        \/ HStopGo(a) \/ HStopWaitEnd(a) \/ \E b \in B : HStopBegin(a, b)
  \/ \E i \in 1..NDrv :
        \/ DAwaitEnd(i) \/ DIdleStart(i) \/ DIdleJoin(i) \/ DIdleFlag(i) \/ DIdleRecheck(i)
        \/ DIdleTimeout(i) \/ DStopGo(i) \/ DStopWaitEnd(i) \/ DStopBody(i) \/ (\E b \in B : DStopBeginT(i, b)) \/ DExpectGo(i) \/ DExpectEnd(i, TRUE) \/ DExpectEnd(i, FALSE)
        \/ \E b \in B : \E ty \in Range(Types) : \E f \in ExpFilters : DExpectBegin(i, b, ty, f, "none", FALSE) \/ \E n \in 0..2 : (WithExpect /\ DDispatchN(i, b, ty, n))
        \/ \E b \in B : DStopBegin(i, b) \/ DCancelRL(i, b)
        \/ \E h \in Range(Cfg.handlers) : DRegister(i, h.id)
        \/ \E b \in B : DIdleBegin(i, b, FALSE) \/ (WithRedispatch /\ \E e \in 1..MaxEv : DRedispatch(i, e, b)) \/ \E ty \in Range(Types) : DDispatch(i, b, ty)
        \/ \E k \in 1..MaxEv : DAwaitBegin(i, k)

Next == NextCore /\ UNCHANGED Cfg /\ hlog' = IF KeepLog /\ o'.nl # o.nl THEN Append(hlog, o'.lastln) ELSE hlog
Spec == Init /\ [][Next]_vars

\* ------------------------------------------------------------------------
\* liveness: under fairness every behaviour of a bounded scenario reaches a state where nothing can move any more (no livelock
\* of run loops, forwarding, re-queueing or zero-sleep polling); what is left blocked in that state is judged by TerminalOK.
\* Strong fairness on everything but the zero-sleep poll itself: a polling handler lets the others run infinitely often.
SpinStep == \E a \in 1..MaxAct : InlineSpin(a) \/ SpinWake(a)
Progress == Next /\ ~SpinStep
FairSpec == Spec /\ SF_vars(Progress) /\ WF_vars(SpinStep /\ UNCHANGED <<Cfg, hlog>>)
Terminates == <>(~ENABLED Next)

\* ------------------------------------------------------------------------
\* properties: every witness of a falsified clause is explained by a recorded finding
\* ------------------------------------------------------------------------
Unexplained(S) == {w \in S : Classify(Cfg, o, w) = ""}
NoUnexplainedWitness == Unexplained(o.wit) = {}
WitnessOf(p) == {w \in o.wit : \E c \in p : w.c = c}

\* quiescence: no task can move (drivers out of budget count as finished)
Quiescent ==
  /\ cur = NoTask
  /\ \A b \in B : (q[b] = <<>> \/ shut[b]) /\ task[RL(b)].pc \in {"none", "poll", "dead"}
  /\ \A a \in 1..nact : task[HT(a)].pc = "done"
  /\ \A i \in 1..NDrv : task[DT(i)].pc = "run"
EndLine ==
  Line("End") @@ [blocked |-> SetToSeq({[d |-> i, op |-> IF task[DT(i)].pc = "xaw" THEN "a" ELSE "idle"] : i \in {j \in 1..NDrv : task[DT(j)].pc # "run"}}),
                  open |-> SetToSeq({a \in 1..nact : task[HT(a)].pc # "done"}), abort |-> "", failed |-> <<>>,
                  crldone |-> SetToSeq({b \in B : task[RL(b)].pc \in {"none", "dead"}} \cup o.restart),   \* (a restarted bus: the model only restarts after the old task ended)
                  wal |-> SetToSeq({<<b, [i \in 1..Len(o.walw[b]) |-> <<o.walw[b][i], TRUE>>]>> : b \in {x \in B : IsWal(x)}})]
EndWitnesses == StepCore(Cfg, o, o, EndLine).wit
\* at every state where nothing can move any more, the end-of-execution clauses hold (modulo recorded findings)
TerminalOK == (~ENABLED Next) => Unexplained(EndWitnesses) = {}
DebugEnd == (~ENABLED Next) => (Unexplained(EndWitnesses) = {} \/ PrintT(<<"ENDW", Unexplained(EndWitnesses), EndLine.blocked, EndLine.open>>))
QuiescentOK == Quiescent => Unexplained(EndWitnesses) = {}

\* stuck: nobody can move but something is unfinished (a blocked waiter, an unfinished handler)
Enabled0 == ENABLED Next
Stuck == ~Enabled0 /\ ~Quiescent
\* statistics (run with -workers 1): which clauses produced witnesses and how they were classified
ASSUME TLCSet(1, {})
CollectStats == TLCSet(1, TLCGet(1) \cup {<<w.c, Classify(Cfg, o, w)>> : w \in o.wit}
                                   \cup (IF ~ENABLED Next THEN {<<w.c, Classify(Cfg, o, w), "end">> : w \in EndWitnesses} ELSE {}))
PrintStats == PrintT(<<"WITNESS-CLASSES", TLCGet(1)>>)
LockOK == semv \in 0..1 /\ depth \in 0..1 /\ Cardinality({t \in Tasks : task[t].holds /\ t[1] = "rl"}) <= 1
\* spec -> code: every finished behaviour is printed as the trace the harness would record (simulation mode, KeepLog)
EmitBehaviour == (KeepLog /\ ~ENABLED Next) => PrintT(<<"BEH", ToJson([cfg |-> Cfg, log |-> hlog, wit |-> {[c |-> w.c, kf |-> Classify(Cfg, o, w)] : w \in o.wit}])>>)
TypeOK == /\ nev \in 0..MaxEv /\ nact \in 0..MaxAct /\ \A b \in B : unf[b] >= 0
=============================================================================
