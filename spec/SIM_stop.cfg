SPECIFICATION Spec
CONSTANTS
  Cfg0 <- MCfg
  Types <- MTypes
  MaxEv = 5
  MaxAct = 6
  Budget = 2
  NDrv = 2
  DrvBudget = 2
  MaxDepth = 2
  QueueCap = 0
  HardLimit = 0
  WithErrors = FALSE
  WithIdle = FALSE
  WithSleep = FALSE
  WithExpect = FALSE
  MaxExpect = 0
  ExpFilters = {}
  WithWalFaults = FALSE
  WithStop = TRUE
  TimeoutTypes = {}
  KeepLog = TRUE
INVARIANT TypeOK
INVARIANT LockOK
INVARIANT NoUnexplainedWitness
INVARIANT TerminalOK
INVARIANT EmitBehaviour
CHECK_DEADLOCK FALSE
