SPECIFICATION TSpec
INVARIANT Report
CHECK_DEADLOCK FALSE
