SPECIFICATION SpecAll
CONSTANTS
  Cfg0 = 0
  Types <- MTypes
  MaxEv = 2
  MaxAct = 5
  Budget = 2
  NDrv = 1
  DrvBudget = 2
  MaxDepth = 1
  QueueCap = 0
  HardLimit = 0
  WithErrors = FALSE
  WithIdle = FALSE
  WithSleep = FALSE
  WithExpect = FALSE
  MaxExpect = 0
  ExpFilters = {}
  WithWalFaults = FALSE
  WithStop = FALSE
  TimeoutTypes = {}
  KeepLog = TRUE
INVARIANT TypeOK
INVARIANT LockOK
INVARIANT NoUnexplainedWitness
INVARIANT TerminalOK
INVARIANT EmitBehaviour
CHECK_DEADLOCK FALSE
