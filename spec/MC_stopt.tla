------------------------------ MODULE MC_stopt ------------------------------
(* stop(timeout > 0): one serial bus with one wildcard scenario handler; drivers may dispatch, wait for idleness, stop the bus with and
   without a timeout (overlapping stop() calls of which one is timed are left out by the model) and cancel its background task. *)
EXTENDS Bubus
MCfg == [stopt |-> TRUE,
         buses |-> <<[name |-> "b1", parallel |-> FALSE, maxhist |-> 0]>>,
         handlers |-> <<[id |-> "w_b1", bus |-> "b1", pat |-> "*", kind |-> "async", to |-> ""]>>]
MTypes == <<"T">>
=============================================================================
