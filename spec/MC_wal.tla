------------------------------ MODULE MC_wal ------------------------------
(* Two serial buses with write-ahead logs (b1 forwards to b2), I/O faults on open / write allowed. *)
EXTENDS Bubus
MCfg == [buses |-> <<[name |-> "b1", parallel |-> FALSE, maxhist |-> 0, wal |-> TRUE], [name |-> "b2", parallel |-> FALSE, maxhist |-> 0, wal |-> TRUE]>>,
         handlers |-> <<[id |-> "w_b1", bus |-> "b1", pat |-> "*", kind |-> "async", to |-> ""],
                        [id |-> "f_b1_b2", bus |-> "b1", pat |-> "*", kind |-> "fwd", to |-> "b2"],
                        [id |-> "w_b2", bus |-> "b2", pat |-> "*", kind |-> "sync", to |-> ""]>>]
MTypes == <<"T">>
=============================================================================
