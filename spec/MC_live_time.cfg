SPECIFICATION FairSpec
CONSTANTS
  Cfg0 <- MCfg
  Types <- MTypes
  MaxEv = 2
  MaxAct = 2
  Budget = 2
  NDrv = 1
  DrvBudget = 2
  MaxDepth = 2
  QueueCap = 0
  HardLimit = 0
  WithErrors = FALSE
  WithIdle = FALSE
  WithSleep = TRUE
  WithExpect = FALSE
  MaxExpect = 0
  ExpFilters = {}
  WithWalFaults = FALSE
  WithStop = FALSE
  TimeoutTypes = {"T"}
  KeepLog = FALSE
INVARIANT TypeOK
INVARIANT LockOK
INVARIANT NoUnexplainedWitness
INVARIANT TerminalOK
PROPERTY Terminates
CHECK_DEADLOCK FALSE
