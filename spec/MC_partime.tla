----------------------------- MODULE MC_partime -----------------------------
(* Timeouts and cancellation on a parallel_handlers bus: a serial bus whose handler (type R, with a timeout) may dispatch to and await
   events on a parallel bus with two scenario handlers. *)
EXTENDS Bubus
MCfg == [buses |-> <<[name |-> "b1", parallel |-> FALSE, maxhist |-> 0], [name |-> "b2", parallel |-> TRUE, maxhist |-> 0]>>,
         handlers |-> <<[id |-> "hr", bus |-> "b1", pat |-> "R", kind |-> "async", to |-> ""],
                        [id |-> "c1", bus |-> "b2", pat |-> "C", kind |-> "async", to |-> ""],
                        [id |-> "c2", bus |-> "b2", pat |-> "C", kind |-> "async", to |-> ""]>>]
MTypes == <<"R", "C">>
=============================================================================
