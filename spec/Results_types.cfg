SPECIFICATION Spec
CONSTANTS
  MaxLen = 0
  Part = "types"
INVARIANT Emit
CHECK_DEADLOCK FALSE
