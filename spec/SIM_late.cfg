SPECIFICATION Spec
CONSTANTS
  Cfg0 <- MCfg
  Types <- MTypes
  MaxEv = 4
  MaxAct = 9
  Budget = 1
  NDrv = 2
  DrvBudget = 1
  MaxDepth = 2
  QueueCap = 0
  HardLimit = 0
  WithErrors = FALSE
  WithIdle = FALSE
  WithSleep = FALSE
  WithExpect = FALSE
  MaxExpect = 0
  ExpFilters = {}
  WithWalFaults = FALSE
  WithStop = FALSE
  TimeoutTypes = {}
  KeepLog = TRUE
INVARIANT TypeOK
INVARIANT LockOK
INVARIANT NoUnexplainedWitness
INVARIANT TerminalOK
INVARIANT EmitBehaviour
CHECK_DEADLOCK FALSE
