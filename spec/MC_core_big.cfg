SPECIFICATION Spec
CONSTANTS
  Cfg0 <- MCfg
  Types <- MTypes
  MaxEv = 4
  MaxAct = 4
  Budget = 2
  NDrv = 1
  DrvBudget = 3
  MaxDepth = 2
  QueueCap = 0
  HardLimit = 0
  WithErrors = FALSE
  WithIdle = FALSE
  WithSleep = TRUE
  WithExpect = FALSE
  MaxExpect = 0
  ExpFilters = {}
  WithWalFaults = FALSE
  WithStop = FALSE
  TimeoutTypes = {}
  KeepLog = FALSE
INVARIANT TypeOK
INVARIANT LockOK
INVARIANT NoUnexplainedWitness
INVARIANT TerminalOK
CHECK_DEADLOCK FALSE
