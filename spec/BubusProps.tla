----------------------------- MODULE BubusProps -----------------------------
(***************************************************************************
 Observable vocabulary of bubus and the property formulas C01..C18 over it.

 An *observation line* is a record describing one observable step of an execution
 (a dispatch call and its outcome, a handler entry/exit, an await begin/end, ...)
 together with the diff of the projected public state.  `Step(cfg, o, ln)` is the
 monitor: a total function that folds a line into the observable state `o` and adds
 one *witness* record to `o.wit` for every property clause the step falsifies.

 The same operators are used in two places (DESIGN.md 4.2):
   * Bubus.tla   - every action of the implementation-shaped model emits the line
                   the harness would log, and maintains `o` with Step; the
                   invariants are stated on `o.wit`;
   * TraceObs.tla - replays the lines recorded from the real code.
 Only observables are mentioned here, so an implementation that keeps the promises
 satisfies the clauses without matching the detailed model.
 ***************************************************************************)
EXTENDS Naturals, Integers, Sequences, FiniteSets, TLC, SequencesExt

\* Range comes from Functions (via SequencesExt)
InSeq(x, s) == \E i \in DOMAIN s : s[i] = x
FirstIdx(s, x) == CHOOSE i \in DOMAIN s : s[i] = x /\ \A j \in DOMAIN s : s[j] = x => i <= j
SelSeq(s, P(_)) == SelectSeq(s, P)
Max2(a, b) == IF a >= b THEN a ELSE b

RECURSIVE SeqMinus(_, _)
SeqMinus(s, S) == IF s = <<>> THEN <<>> ELSE IF Head(s) \in S THEN SeqMinus(Tail(s), S) ELSE <<Head(s)>> \o SeqMinus(Tail(s), S)

\* ------------------------------------------------------------------------
\* configuration (static part of a scenario)
\* ------------------------------------------------------------------------
BusNames(cfg) == {r.name : r \in Range(cfg.buses)}
BusRec(cfg, b) == CHOOSE r \in Range(cfg.buses) : r.name = b
IsParallel(cfg, b) == BusRec(cfg, b).parallel
MaxHist(cfg, b) == BusRec(cfg, b).maxhist          \* 0 = unlimited
Handlers(cfg) == Range(cfg.handlers)
Matches(h, ty) == h.pat = "*" \/ h.pat = ty
Puppets(cfg, b, ty) == {h \in Handlers(cfg) : h.bus = b /\ h.kind # "fwd" /\ Matches(h, ty)}
\* handlers flagged `late` are not registered at the start: a driver registers them at run time (bus.on(...), line Reg)
IsLate(h) == "late" \in DOMAIN h /\ h.late
Fwds(cfg, b, ty) == {h \in Handlers(cfg) : h.bus = b /\ h.kind = "fwd" /\ Matches(h, ty)}
RECURSIVE ReachFrom(_, _, _)
ReachFrom(cfg, S, ty) ==
  LET N == S \cup {h.to : h \in {x \in Handlers(cfg) : x.kind = "fwd" /\ x.bus \in S /\ Matches(x, ty)}}
  IN IF N = S THEN S ELSE ReachFrom(cfg, N, ty)

\* ------------------------------------------------------------------------
\* witnesses
\* ------------------------------------------------------------------------
\* c: clause, p: property id, e: event, b: bus, h: handler, a: activation, k: free text, kf: known finding id
W(c, e, b, h, a, k) == [c |-> c, e |-> e, b |-> b, h |-> h, a |-> a, k |-> k]

\* ------------------------------------------------------------------------
\* observable state
\* ------------------------------------------------------------------------
Groups == {"enter", "disp", "awE", "xawE", "idleE", "stopE", "evict", "complete", "timeout", "raise", "fwd",
           "expE", "rej", "wal", "end", "nested_enter", "acc"}

ObsInit(cfg) ==
  [ n      |-> 0,                                  \* number of events seen
    ety    |-> <<>>,                               \* type of each event
    gpar   |-> <<>>,                               \* ground-truth parent: event of the dispatching activation (0: none)
    xpar   |-> <<>>,                               \* explicit parent supplied by the caller (0: none)
    acc    |-> [b \in BusNames(cfg) |-> <<>>],     \* events accepted per bus, in order (dispatch or forwarding)
    disp   |-> <<>>,                               \* all dispatch calls
    runs   |-> {},                                 \* <<bus, event, handler>> entered at least once
    racts  |-> {},                                 \* closed activations [act,b,e,h,out,t0,t1,dl,enc]
    open   |-> {},                                 \* open activations
    started|-> [b \in BusNames(cfg) |-> <<>>],     \* order of first handler entry per bus
    snap   |-> <<>>,                               \* last observed public state of each event
    fc     |-> <<>>,                               \* per event: <<>> or <<snapshot at first observed completion>>
    hist   |-> [b \in BusNames(cfg) |-> <<>>],
    q      |-> [b \in BusNames(cfg) |-> <<>>],
    reg    |-> [b \in BusNames(cfg) |-> 0],
    proc   |-> [b \in BusNames(cfg) |-> <<>>],     \* events whose processing on b finished (ProcE), in order
    early  |-> {},                                 \* [act, e, why]: an in-handler await of e returned although e was not done (C05 still covers e until it is)
    procB  |-> {},                                 \* <<b,e>> whose processing began
    lreg   |-> {},                                 \* late handlers registered so far
    lexp   |-> {},                                 \* <<b,e,h>>: late handler h was registered when bus b began to process e (so it is owed e)
    take   |-> {},                                 \* <<b,e,waiting>>: frames opened by an inline drain, and whether the draining handler was still waiting then
    procX  |-> {},                                 \* <<b,e>> whose processing was abandoned by an exception
    xw     |-> {},                                 \* external waiters
    stopped|-> {},                                 \* buses for which stop() was called (begin)
    stopT  |-> [b \in BusNames(cfg) |-> -1],       \* time stop() returned
    stopAcc|-> [b \in BusNames(cfg) |-> 0],        \* number of events accepted on b when stop() / cancellation began
    restart|-> {},                                 \* buses used again (dispatch, wait_until_idle) after stop() began
    crl    |-> {},                                 \* buses whose background task was cancelled
    exps   |-> {},                                 \* pending / finished expect calls
    walw   |-> [b \in BusNames(cfg) |-> <<>>],     \* events whose WAL line was appended on b, in order
    walf   |-> {},                                 \* <<b,e>> whose WAL write failed (injected I/O fault)
    now    |-> 0,
    nl     |-> 0,                                  \* number of lines folded so far
    lastln |-> <<>>,                               \* the last line (without its state diffs); lets a model behaviour be read back as a trace
    wit    |-> {},
    cnt    |-> [g \in Groups |-> 0] ]

Snap0 == [st |-> "pending", sig |-> FALSE, par |-> 0, path |-> <<>>, res |-> <<>>]

RECURSIVE ApplyEvs(_, _)
ApplyEvs(snap, evs) ==
  IF evs = <<>> THEN snap
  ELSE LET r == Head(evs)
           s == [st |-> r.st, sig |-> r.sig, par |-> r.par, path |-> r.path, res |-> r.res]
       IN ApplyEvs(IF r.e > Len(snap) THEN Append(snap, s) ELSE [snap EXCEPT ![r.e] = s], Tail(evs))
RECURSIVE ApplyTys(_, _)
ApplyTys(ety, evs) ==
  IF evs = <<>> THEN ety
  ELSE LET r == Head(evs) IN ApplyTys(IF r.e > Len(ety) THEN Append(ety, r.ty) ELSE ety, Tail(evs))
RECURSIVE ApplyPairs(_, _)
ApplyPairs(f, ps) == IF ps = <<>> THEN f ELSE ApplyPairs([f EXCEPT ![Head(ps)[1]] = Head(ps)[2]], Tail(ps))

Terminal(s) == s \in {"completed", "error"}
ResDone(sn) == \A i \in DOMAIN sn.res : Terminal(sn.res[i].st)
Complete(sn) == sn.sig /\ sn.st = "completed" /\ ResDone(sn)
\* fully done as C03/C04 state it: signalled, all results terminal
Done(o, e) == o.snap[e].sig /\ ResDone(o.snap[e])

Kids(o, e) == {c \in 1..o.n : o.gpar[c] = e}
RECURSIVE Desc(_, _)
Desc(o, e) == LET K == Kids(o, e) IN K \cup UNION {Desc(o, c) : c \in K}
Sub(o, e) == {e} \cup Desc(o, e)
RECURSIVE Anc(_, _)
\* a pending result that was cancelled because a handler of an ancestor event timed out (C10 asks for exactly that)
Anc(o, e) == IF e = 0 \/ e > o.n \/ o.gpar[e] = 0 THEN {} ELSE {o.gpar[e]} \cup Anc(o, o.gpar[e])

TimedOutAncestor(o, e) == \E a \in Anc(o, e) : \E i \in DOMAIN o.snap[a].res : o.snap[a].res[i].err = "Timeout"
CancelledByTimeout(o, e, i) == o.snap[e].res[i].err = "Cancelled:pending" /\ TimedOutAncestor(o, e)
\* on a parallel_handlers bus the handler's task may exist but not have taken its first step when the ancestor's timeout cancels it:
\* its result then reads "interrupted" although its code never ran
InterruptedUnstarted(o, e, i) == o.snap[e].res[i].err = "Cancelled:interrupted" /\ TimedOutAncestor(o, e)
AcceptedOn(o, b) == Range(o.acc[b])
AcceptedAnywhere(o) == UNION {Range(o.acc[b]) : b \in DOMAIN o.acc}
OpenAct(o, a) == CHOOSE x \in o.open : x.act = a
IsOpen(o, a) == \E x \in o.open : x.act = a
ResOf(sn, h, b) == {i \in DOMAIN sn.res : sn.res[i].h = h /\ sn.res[i].b = b}
Bump(o, g) == [o EXCEPT !.cnt[g] = @ + 1]
AddW(o, ws) == [o EXCEPT !.wit = @ \cup ws]
\* the scenario handlers of bus b that event e is owed: the ones registered from the start, and the late ones registered by the time b
\* began to process e (handler selection happens at the head of process_event)
Expected(cfg, o, b, e) == {h \in Puppets(cfg, b, o.ety[e]) : ~IsLate(h) \/ <<b, e, h.id>> \in o.lexp}
RegisteredNow(cfg, o, b, ty) == {h \in Puppets(cfg, b, ty) : ~IsLate(h) \/ h.id \in o.lreg}

\* number of ancestors of e (by the library's own parent pointers) on which handler h of bus b has run
RECURSIVE AncRuns(_, _, _, _, _)
AncRuns(o, e, b, h, seen) ==
  IF e = 0 \/ e > Len(o.snap) \/ e \in seen THEN 0
  ELSE LET p == o.snap[e].par IN
       IF p <= 0 \/ p > Len(o.snap) THEN 0
       ELSE (IF ResOf(o.snap[p], h, b) # {} THEN 1 ELSE 0) + AncRuns(o, p, b, h, seen \cup {e})

\* ------------------------------------------------------------------------
\* generic clauses evaluated after every line
\* ------------------------------------------------------------------------
\* C08: once observed complete, an event never changes again
C08W(o, o1) ==
  UNION { LET f == o1.fc[e][1]  s == o1.snap[e]
              fb == {f.res[i].b : i \in DOMAIN f.res}
              prefixSame == Len(s.res) >= Len(f.res) /\ \A i \in DOMAIN f.res :
                               <<s.res[i].h, s.res[i].b, s.res[i].st, s.res[i].err, s.res[i].val>> =
                               <<f.res[i].h, f.res[i].b, f.res[i].st, f.res[i].err, f.res[i].val>>
              addedNew == prefixSame /\ \A i \in DOMAIN s.res : i > Len(f.res) => s.res[i].b \notin fb
              k == IF addedNew THEN "newbus" ELSE ""
          IN (IF s.st # "completed" \/ ~s.sig THEN {W("C08.regress", e, "", "", 0, k)} ELSE {})
          \cup (IF Len(s.res) > Len(f.res) THEN {W("C08.results_added", e, "", "", 0, k)} ELSE {})
          \cup (IF ~prefixSame THEN {W("C08.result_changed", e, "", "", 0, "")} ELSE {})
        : e \in {x \in 1..Len(o.fc) : o.fc[x] # <<>> /\ o.snap[x] # o1.snap[x]} }

\* C13: history bound and eviction order (class: completed 0 < started 1 < pending 2; oldest first inside a class)
Cls(sn) == IF sn.st = "completed" THEN 0 ELSE IF sn.st = "started" THEN 1 ELSE 2
C13W(cfg, o, o1) ==
  UNION { LET N == MaxHist(cfg, b)
              before == Range(o.hist[b])   after == Range(o1.hist[b])
              removed == before \ after
          IN (IF N > 0 /\ Len(o1.hist[b]) > N THEN {W("C13.bound", 0, b, "", Len(o1.hist[b]), "")} ELSE {})
             \cup {W("C13.order", r, b, "", s, "class") : <<r, s>> \in {p \in removed \X after : Cls(o1.snap[p[1]]) > Cls(o1.snap[p[2]])}}
             \cup {W("C13.order", r, b, "", s, "age") : <<r, s>> \in {p \in removed \X after : Cls(o1.snap[p[1]]) = Cls(o1.snap[p[2]]) /\ p[1] > p[2]}}
        : b \in DOMAIN o1.hist }

KidCountSnap(snap, e) == \* how many times e is recorded as a child, over all results of all events
  LET RECURSIVE Cnt(_)
      Cnt(q) == IF q = <<>> THEN 0 ELSE (IF Head(q) = e THEN 1 ELSE 0) + Cnt(Tail(q))
      RECURSIVE Sum(_, _)
      Sum(sn, i) == IF i > Len(sn.res) THEN 0 ELSE Cnt(sn.res[i].kids) + Sum(sn, i + 1)
      RECURSIVE All(_)
      All(x) == IF x > Len(snap) THEN 0 ELSE Sum(snap[x], 1) + All(x + 1)
  IN All(1)
\* C09: structural lineage facts that must hold in every observed state
C09StructW(o, o1, changed) ==
  UNION { LET s == o1.snap[e]
              allKids == UNION {Range(s.res[i].kids) : i \in DOMAIN s.res} IN
          (IF s.par = e THEN {W("C09.self_parent", e, "", "", 0, "")} ELSE {})
          \cup (IF \E i \in DOMAIN s.res : InSeq(e, s.res[i].kids) THEN {W("C09.self_child", e, "", "", 0, "")} ELSE {})
          \* the parent pointer is fixed by the first dispatch: it never changes afterwards (a forward or re-dispatch must not re-parent)
          \cup (IF e <= Len(o.snap) /\ o.snap[e].par # s.par THEN {W("C09.parent_changed", e, "", "", s.par, "")} ELSE {})
          \* an event is recorded as a child at most once over all handler results of all events
          \cup {W("C09.child_twice", c, "", "", e, "") : c \in {k \in allKids : k # 0 /\ KidCountSnap(o1.snap, k) > 1}}
        : e \in changed }

\* C10: when a handler's result becomes TimeoutError, no result of any descendant of its event is left pending
C10ChildW(o, o1) ==
  UNION { UNION { {W("C10.child_pending", d, "", o1.snap[e].res[i].h, e, "") :
                     d \in {x \in Desc(o1, e) : x <= Len(o1.snap) /\ \E j \in DOMAIN o1.snap[x].res : o1.snap[x].res[j].st = "pending"}}
                : i \in {k \in DOMAIN o1.snap[e].res : o1.snap[e].res[k].err = "Timeout" /\
                                                        (e > Len(o.snap) \/ k > Len(o.snap[e].res) \/ o.snap[e].res[k].err # "Timeout")} }
        : e \in 1..Len(o1.snap) }

AfterEvery(cfg, o, o1, ln) ==
  LET changed == {e \in 1..Len(o1.snap) : e > Len(o.snap) \/ o.snap[e] # o1.snap[e]}
      \* record first observed completion
      fc1 == [e \in 1..Len(o1.snap) |->
                 IF e <= Len(o.fc) /\ o.fc[e] # <<>> THEN o.fc[e]
                 ELSE IF Complete(o1.snap[e]) THEN <<o1.snap[e]>> ELSE <<>>]
      \* (obligations of early returns end when the child is done; dropping them keeps equal futures equal for the model checker)
      o2 == [o1 EXCEPT !.fc = fc1, !.early = {z \in @ : ~(z.e <= Len(o1.snap) /\ o1.snap[z.e].sig /\ ResDone(o1.snap[z.e]))}]
      o3 == IF \E b \in DOMAIN o.hist : Range(o.hist[b]) \ Range(o1.hist[b]) # {} THEN Bump(o2, "evict") ELSE o2
      \* C08 / C03: an event is signalled complete although no bus has begun to process it yet (its handlers are still to come)
      premature == {W("C08.premature", e, "", "", 0, "") :
                      e \in {x \in 1..Len(o1.snap) : fc1[x] # <<>> /\ (x > Len(o.fc) \/ o.fc[x] = <<>>) /\ ~\E p \in o1.procB : p[2] = x}}
      \* C08 / C03: the completion signal is raised while a handler result of the event is still pending or started
      sigEarly == {W("C08.signal_early", e, "", "", 0, "") :
                     e \in {x \in changed : o1.snap[x].sig /\ ~ResDone(o1.snap[x]) /\ (x > Len(o.snap) \/ ~o.snap[x].sig)}}
  IN AddW(o3, C08W(o, o2) \cup C13W(cfg, o, o2) \cup C09StructW(o, o2, changed) \cup C10ChildW(o, o2) \cup premature \cup sigEarly)

\* ------------------------------------------------------------------------
\* Disp
\* ------------------------------------------------------------------------
KidCount(o, e) == \* how many times e is recorded as a child, over all results of all events
  LET RECURSIVE Cnt(_)
      Cnt(s) == IF s = <<>> THEN 0 ELSE (IF Head(s) = e THEN 1 ELSE 0) + Cnt(Tail(s))
      RECURSIVE Sum(_, _)
      Sum(sn, i) == IF i > Len(sn.res) THEN 0 ELSE Cnt(sn.res[i].kids) + Sum(sn, i + 1)
      RECURSIVE All(_)
      All(x) == IF x > Len(o.snap) THEN 0 ELSE Sum(o.snap[x], 1) + All(x + 1)
  IN All(1)
KidCountIn(o, p, h, b, e) ==
  LET RECURSIVE Cnt(_)
      Cnt(s) == IF s = <<>> THEN 0 ELSE (IF Head(s) = e THEN 1 ELSE 0) + Cnt(Tail(s))
      I == ResOf(o.snap[p], h, b)
  IN IF I = {} THEN 0 ELSE Cnt(o.snap[p].res[CHOOSE i \in I : TRUE].kids)

StepDisp(cfg, o, ln) ==
  LET e == ln.e   b == ln.b
      new == e > o.n
      ok == ln.out = "ok"
      caller == IF ln.act # 0 /\ IsOpen(o, ln.act) THEN OpenAct(o, ln.act) ELSE [act |-> 0, b |-> "", e |-> 0, h |-> ""]
      gp == IF ln.act # 0 /\ caller.e # e THEN caller.e ELSE 0
      o1 == [o EXCEPT !.n = IF new THEN e ELSE @,
                      !.gpar = IF new THEN Append(@, IF ok THEN gp ELSE 0) ELSE @,
                      !.xpar = IF new THEN Append(@, IF ln.xp THEN ln.xpe ELSE 0) ELSE @,
                      !.acc = IF ok THEN [@ EXCEPT ![b] = Append(@, e)] ELSE @,
                      !.restart = IF b \in o.stopped THEN @ \cup {b} ELSE @,
                      !.open = IF ln.act # 0 /\ ~ln.fw /\ IsOpen(o, ln.act) THEN {IF z.act = ln.act THEN [z EXCEPT !.fresh = @ \cup {e}] ELSE z : z \in @} ELSE @,
                      !.disp = Append(@, [b |-> b, e |-> e, out |-> ln.out, act |-> ln.act, drv |-> ln.drv, fw |-> ln.fw, xp |-> ln.xp, t |-> ln.t])]
      s == o.snap[e]
      w9 ==
        IF ~ok THEN {}
        ELSE (IF ~ln.same THEN {W("C07.identity", e, b, "", 0, "dispatch returned another object")} ELSE {})
          \cup (IF ln.xp /\ s.par # ln.xpe THEN {W("C09.explicit_parent", e, b, "", ln.act, "")} ELSE {})
          \cup (IF ~ln.xp /\ new /\ ln.act # 0 /\ caller.e # e /\ s.par # caller.e THEN {W("C09.parent", e, b, caller.h, ln.act, "")} ELSE {})
          \cup (IF ~ln.xp /\ new /\ ln.act = 0 /\ ~ln.fw /\ s.par # 0 THEN {W("C09.ext_parent", e, b, "", 0, "")} ELSE {})
          \cup (IF new /\ ln.act # 0 /\ caller.e # e /\ caller.e # 0 /\
                   (KidCountIn(o, caller.e, caller.h, caller.b, e) # 1 \/ KidCount(o, e) # 1)
                THEN {W("C09.child", e, b, caller.h, ln.act, "")} ELSE {})
          \cup (IF new /\ ln.act = 0 /\ KidCount(o, e) # 0 THEN {W("C09.ext_child", e, b, "", 0, "")} ELSE {})
          \cup (IF ~InSeq(e, o.q[b]) THEN {W("C14.silent", e, b, "", ln.act, "accepted but not queued")} ELSE {})
          \cup (IF ~InSeq(b, s.path) THEN {W("C07.path_missing", e, b, "", 0, "")} ELSE {})
      w14 ==
        IF ok THEN {}
        ELSE (IF new /\ InSeq(e, o.hist[b]) THEN {W("C14.rejected_in_history", e, b, "", ln.act, ln.out)} ELSE {})
          \cup (IF new /\ KidCount(o, e) # 0 THEN {W("C14.rejected_child", e, b, "", ln.act, ln.out)} ELSE {})
          \cup (IF new /\ InSeq(e, o.q[b]) THEN {W("C14.rejected_queued", e, b, "", ln.act, ln.out)} ELSE {})
      o2 == Bump(IF ok THEN o1 ELSE Bump(o1, "rej"), IF ln.fw THEN "fwd" ELSE "disp")
  IN AddW(o2, w9 \cup w14)

\* ------------------------------------------------------------------------
\* HEnter / HExit / HOp / AwB / AwE
\* ------------------------------------------------------------------------
\* x may start while y is open only if ... (C06); ex jumps the queue of y's awaited child only if ... (C05)
SiblingsPar(cfg, x, y) == x.e = y.e /\ x.b = y.b /\ IsParallel(cfg, x.b)
\* everything an awaiting handler is waiting for: the awaited event's tree, and the trees of the other events it awaits at the same time
\* through helper tasks (asyncio.gather and the like; field `also`)
AwSub(o, z) == Sub(o, z.aw) \cup UNION {Sub(o, e2) : e2 \in z.also}
\* the open handlers a handler runs under: itself, the awaiting handler whose inline drain started it, and so on upwards
RECURSIVE Starters(_, _, _)
Starters(o, u, seen) ==
  IF u.act \in seen THEN {} ELSE
  {u} \cup (IF u.by = "in" /\ IsOpen(o, u.bya) THEN Starters(o, OpenAct(o, u.bya), seen \cup {u.act}) ELSE {})
\* x and y run under two different handlers of the same event on a parallel_handlers bus (each of them draining inline): finding G9
UnderParSiblings(cfg, o, x, y) ==
  \E z1 \in Starters(o, x, {}) : \E z2 \in Starters(o, y, {}) : z1.act # z2.act /\ SiblingsPar(cfg, z1, z2)
\* x and y were both started by inline drains running under one and the same handler at the same time (its helper tasks - asyncio.gather,
\* TaskGroup - each run the drain): finding G9 as well
UnderSameDrainer(o, x, y) ==
  x.by = "in" /\ y.by = "in" /\ y.aw = 0 /\ \E z \in Starters(o, x, {}) \ {x} : z \in Starters(o, y, {}) \ {y}
Excused6(cfg, o, x, y) ==
  \/ y.aw # 0
  \/ SiblingsPar(cfg, x, y)
  \/ IsParallel(cfg, y.b) /\ \E z \in o.open : z.act # y.act /\ z.e = y.e /\ z.b = y.b /\ z.aw # 0

StepEnter(cfg, o, ln) ==
  LET x == [act |-> ln.act, b |-> ln.b, e |-> ln.e, h |-> ln.h, aw |-> 0, also |-> {}, awim |-> FALSE, fresh |-> {}, by |-> ln.byk, bya |-> ln.bya, t0 |-> ln.t,
            dl |-> IF ln.tmo < 0 THEN -1 ELSE ln.t + ln.tmo, sync |-> ln.sync,
            enc |-> {y.act : y \in {z \in o.open : z.aw # 0}}]
      key == <<ln.b, ln.e, ln.h>>
      first == ~InSeq(ln.e, o.started[ln.b])
      o1 == [o EXCEPT !.runs = @ \cup {key}, !.open = @ \cup {x},
                      !.started = IF first THEN [@ EXCEPT ![ln.b] = Append(@, ln.e)] ELSE @]
      w1 == IF key \in o.runs THEN {W("C01.twice", ln.e, ln.b, ln.h, ln.act, ln.byk)} ELSE {}
      \* C02 fifo: everything accepted earlier on this bus (and having a scenario handler here) has started,
      \* unless this event is (a descendant of) an event some open handler is awaiting
      jump == \E y \in o.open : y.aw # 0 /\ ln.e \in AwSub(o, y)
      pos == IF InSeq(ln.e, o.acc[ln.b]) THEN FirstIdx(o.acc[ln.b], ln.e) ELSE 0
      earlier == IF pos = 0 THEN {} ELSE {o.acc[ln.b][i] : i \in 1..(pos - 1)}
      w2a == IF first /\ ~jump /\ ln.b \notin o.stopped
             THEN {W("C02.fifo", ln.e, ln.b, ln.h, ln.act, ln.byk) : e2 \in
                     {z \in earlier : z # ln.e /\ ~InSeq(z, o.started[ln.b]) /\ <<ln.b, z>> \notin o.procB /\ RegisteredNow(cfg, o, ln.b, o.ety[z]) # {}
                                      /\ ~\E i \in DOMAIN o.snap[z].res : o.snap[z].res[i].b = ln.b /\ CancelledByTimeout(o, z, i)}}
             ELSE {}
      w2n == IF pos = 0 THEN {W("C14.not_accepted", ln.e, ln.b, ln.h, ln.act, "handler entered for an event never accepted on this bus")} ELSE {}
      \* C02 serial: on a serial bus nothing else of this bus is running un-suspended
      w2b == IF IsParallel(cfg, ln.b) THEN {}
             ELSE {W("C02.serial", ln.e, ln.b, ln.h, y.act, IF UnderParSiblings(cfg, o, x, y) \/ UnderSameDrainer(o, x, y) THEN "parsib" ELSE ln.byk) : y \in {z \in o.open : z.b = ln.b /\ z.aw = 0}}
      \* C05: between await-begin and the child's completion only the child and its descendants run
      takeKind == IF \E tk \in o.take : tk[1] = ln.b /\ tk[2] = ln.e THEN (CHOOSE tk \in o.take : tk[1] = ln.b /\ tk[2] = ln.e)[3] ELSE "work"
      w5 == {W("C05.unrelated", ln.e, ln.b, ln.h, y.aw, IF ln.byk # "in" THEN ln.byk ELSE IF takeKind = "done" THEN "in_after_done"
                                                         ELSE IF takeKind = "nowork" THEN "in_nothing_left" ELSE "in") :
               y \in {z \in o.open : z.aw # 0 /\ ~Done(o, z.aw) /\ ln.e \notin AwSub(o, z) /\ ~SiblingsPar(cfg, x, z)
                                   /\ ~\E z2 \in o.open : z2.act # z.act /\ SiblingsPar(cfg, z2, z) /\ z2.aw # 0 /\ ln.e \in AwSub(o, z2)}}
      \* C05, second half of the interval: an await that returned too early does not end the child's priority - until the child is done nothing
      \* unrelated may start either
      w5e == {W("C05.unrelated", ln.e, ln.b, ln.h, ob.e, "early_" \o ob.why) :
                ob \in {z \in o.early : ~Done(o, z.e) /\ ln.e \notin Sub(o, z.e)}}
      \* C06: cross-bus mutual exclusion
      w6 == {W("C06.overlap", ln.e, ln.b, ln.h, y.act, IF UnderParSiblings(cfg, o, x, y) \/ UnderSameDrainer(o, x, y) THEN "parsib" ELSE ln.byk) : y \in {z \in o.open : ~Excused6(cfg, o, x, z)}}
      \* C09: event.event_bus inside a handler is the bus running it
      w9 == IF ln.rb # ln.b THEN {W("C09.event_bus", ln.e, ln.b, ln.h, ln.act, IF Len(o.snap[ln.e].path) > 1 /\ ln.rb = Last(o.snap[ln.e].path) THEN "lastpath" ELSE ln.rb)} ELSE {}
      \* C16: no handler of a stopped bus starts after stop() returned
      w16 == IF o.stopT[ln.b] >= 0 /\ pos # 0 /\ pos <= o.stopAcc[ln.b]
             THEN {W("C16.start_after_stop", ln.e, ln.b, ln.h, ln.act, IF ln.byk = "rl" /\ ln.b \in o.restart THEN "rl_restart" ELSE ln.byk)} ELSE {}
      o2 == Bump(IF o.open # {} THEN Bump(o1, "nested_enter") ELSE o1, "enter")
  IN AddW(o2, w1 \cup w2a \cup w2b \cup w2n \cup w5 \cup w5e \cup w6 \cup w9 \cup w16)

Late(o, a, t) == IF IsOpen(o, a) THEN LET x == OpenAct(o, a) IN x.dl >= 0 /\ t > x.dl ELSE FALSE
LateW(o, a, t, what) == IF Late(o, a, t) THEN {W("C10.late", OpenAct(o, a).e, OpenAct(o, a).b, OpenAct(o, a).h, a, what)} ELSE {}

StepExit(cfg, o, ln) ==
  IF ~IsOpen(o, ln.act) THEN o
  ELSE LET x == OpenAct(o, ln.act)
           r == [act |-> x.act, b |-> x.b, e |-> x.e, h |-> x.h, out |-> ln.out, t0 |-> x.t0, t1 |-> ln.t, dl |-> x.dl,
                 \* an enclosing activation (one that was awaiting when this one started and is still open) with a deadline not later
                 encdl |-> \E y \in o.open : y.act \in x.enc /\ y.dl >= 0 /\ y.dl <= ln.t]
           o1 == [o EXCEPT !.open = @ \ {x}, !.racts = @ \cup {r}]
           w == (IF ln.out # "cancel" THEN LateW(o, ln.act, ln.t, "exit") ELSE {})
                \* C04: the handler ends with an exception while its `await child` is still pending: the await itself raised
                \cup (IF ln.out = "raise" /\ x.aw # 0 THEN {W("C04.raised", x.aw, x.b, x.h, x.act, "")} ELSE {})
       IN AddW(IF ln.out = "raise" THEN Bump(o1, "raise") ELSE IF ln.out = "cancel" THEN Bump(o1, "timeout") ELSE o1, w)

StepOp(cfg, o, ln) == AddW([o EXCEPT !.open = {IF z.act = ln.act /\ ~("op" \in DOMAIN ln /\ ln.op = "cl") THEN [z EXCEPT !.fresh = {}] ELSE z : z \in @}], LateW(o, ln.act, ln.t, "op"))

StepReadBus(cfg, o, ln) ==
  IF ~IsOpen(o, ln.act) THEN o
  ELSE LET x == OpenAct(o, ln.act) IN
       AddW(o, IF ln.rb # x.b THEN {W("C09.event_bus", x.e, x.b, x.h, x.act, IF Len(o.snap[x.e].path) > 1 /\ ln.rb = Last(o.snap[x.e].path) THEN "lastpath" ELSE ln.rb)} ELSE {})

\* the await begins in the very stretch in which this handler dispatched the event (`fresh`: what it has dispatched since it last
\* suspended), so no other task has run in between and no run loop can have taken the event off its queue
ImmediateAwait(o, act, e) == IsOpen(o, act) /\ e \in OpenAct(o, act).fresh
StepAwB(cfg, o, ln) ==
  IF ~IsOpen(o, ln.act) THEN o
  ELSE LET x == OpenAct(o, ln.act) IN
       AddW([o EXCEPT !.open = (@ \ {x}) \cup {[x EXCEPT !.aw = ln.e, !.also = IF "also" \in DOMAIN ln THEN Range(ln.also) ELSE {}, !.awim = ImmediateAwait(o, ln.act, ln.e) /\ ~("also" \in DOMAIN ln)]}], LateW(o, ln.act, ln.t, "await"))

\* the events of the awaited tree that are not done, and why (diagnostics / classification of recorded findings)
NotDoneAll(o, c) == {d \in Sub(o, c) : ~Done(o, d)}
\* only the causes: an event that is not done merely because a descendant is not done is not reported separately
NotDone(o, c) == LET nd == NotDoneAll(o, c) IN {d \in nd : Desc(o, d) \cap nd = {}}
ProcFinished(o, b, d) == InSeq(d, o.proc[b]) \/ \E x \in o.procX : x[1] = b /\ x[2] = d
WhyNotDone(o, d) ==
  IF d <= Len(o.fc) /\ o.fc[d] # <<>> THEN "regressed"                                  \* was observed complete before
  ELSE IF \E b \in DOMAIN o.q : InSeq(d, o.q[b]) THEN "queued"                          \* still waiting in a queue
  ELSE IF ~\E b \in DOMAIN o.acc : InSeq(d, o.acc[b]) THEN "never_accepted"
  ELSE IF \E b \in DOMAIN o.acc : InSeq(d, o.acc[b]) /\ ~ProcFinished(o, b, d) THEN "held" \* taken / being processed by someone else
  ELSE "processed"                                                                      \* processed everywhere, completion lost
StepAwE(cfg, o, ln) ==
  IF ~IsOpen(o, ln.act) THEN o
  ELSE LET x == OpenAct(o, ln.act)
           o1 == Bump([o EXCEPT !.open = (@ \ {x}) \cup {[x EXCEPT !.aw = 0, !.also = {}, !.awim = FALSE, !.fresh = {}]}], "awE")
           nd == NotDone(o, ln.e)
           w == IF ln.canc THEN {}
                ELSE (IF ~ln.same THEN {W("C04.identity", ln.e, x.b, x.h, x.act, "")} ELSE {})
                  \cup {W("C04.incomplete", d, x.b, x.h, x.act,
                            \* "held" (a run loop took the event off its queue and waits for the lock) cannot happen to an event awaited at once
                            IF WhyNotDone(o, d) = "held" /\ d = ln.e /\ x.awim THEN "held_immediate" ELSE WhyNotDone(o, d)) : d \in nd}
                  \cup LateW(o, ln.act, ln.t, "await_return")
           heldImm == ln.e \in nd /\ WhyNotDone(o, ln.e) = "held" /\ x.awim
           o2 == IF ~ln.canc /\ ~Done(o, ln.e)
                 THEN [o1 EXCEPT !.early = @ \cup {[act |-> x.act, e |-> ln.e, why |-> IF heldImm THEN "held_immediate" ELSE "other"]}]
                 ELSE o1
       IN AddW(o2, w)

\* ------------------------------------------------------------------------
\* external waiters
\* ------------------------------------------------------------------------
StepXAwB(cfg, o, ln) == [o EXCEPT !.xw = @ \cup {[k |-> "a", d |-> ln.d, e |-> ln.e, b |-> "", t0 |-> ln.t, tmo |-> -1, before |-> {}]}]
StepXAwE(cfg, o, ln) ==
  LET o1 == Bump([o EXCEPT !.xw = {x \in @ : ~(x.k = "a" /\ x.d = ln.d)}], "xawE")
      w == (IF ~ln.same THEN {W("C03.identity", ln.e, "", "", 0, "")} ELSE {})
        \cup (IF ln.exc # "" THEN {W("C03.raised", ln.e, "", "", 0, ln.exc)} ELSE {})
        \cup {W("C03.incomplete", d, "", "", ln.e, WhyNotDone(o, d)) : d \in NotDone(o, ln.e)}
  IN AddW(o1, w)

\* events accepted on b whose processing there has not finished: queued, or having a handler of b that is not terminal,
\* or accepted and not yet begun
FinishedOn(cfg, o, b, e) ==
  /\ ~InSeq(e, o.q[b])
  /\ \A i \in DOMAIN o.snap[e].res : o.snap[e].res[i].b = b => Terminal(o.snap[e].res[i].st)
  /\ \A h \in Expected(cfg, o, b, e) : <<b, e, h.id>> \in o.runs \/ \E i \in ResOf(o.snap[e], h.id, b) : Terminal(o.snap[e].res[i].st)
StepIdleB(cfg, o, ln) ==
  [o EXCEPT !.restart = IF ln.b \in o.stopped THEN @ \cup {ln.b} ELSE @, !.xw = @ \cup {[k |-> "idle", d |-> ln.d, e |-> 0, b |-> ln.b, t0 |-> ln.t, tmo |-> ln.tmo, before |-> Range(o.acc[ln.b])]}]
StepIdleE(cfg, o, ln) ==
  LET X == {x \in o.xw : x.k = "idle" /\ x.d = ln.d}
      x == CHOOSE y \in X : TRUE
      o1 == Bump([o EXCEPT !.xw = @ \ X], "idleE")
      timedout == x.tmo >= 0 /\ ln.t >= x.t0 + x.tmo
      b == ln.b
      w == IF X = {} \/ timedout \/ b \in o.stopped THEN {}
           ELSE (IF ln.exc # "" THEN {W("C15.raised", 0, b, "", 0, ln.exc)} ELSE {})
             \cup (IF ln.qn # 0 \/ o.q[b] # <<>> THEN {W("C15.queue_not_empty", 0, b, "", 0, "")} ELSE {})
             \cup {W("C15.inflight", e, b, "", 0, o.snap[e].st) : e \in {z \in Range(o.hist[b]) : o.snap[z].st # "completed"}}
             \cup {W("C15.unfinished", e, b, "", 0, "") : e \in {z \in x.before : ~FinishedOn(cfg, o, b, z)}}
             \* ... and nothing the bus accepted *during* the call is left unprocessed either ("nothing queued, pending or started")
             \cup {W("C15.unfinished", e, b, "", 0, "during") : e \in {z \in Range(o.acc[b]) \ x.before : ~FinishedOn(cfg, o, b, z)}}
  IN AddW(o1, w)

StepStopB(cfg, o, ln) ==
  [o EXCEPT !.xw = @ \cup {[k |-> "stop", d |-> ln.d, e |-> 0, b |-> ln.b, t0 |-> ln.t, tmo |-> ln.tmo, before |-> IF ln.running THEN {1} ELSE {}]},
            !.stopped = @ \cup {ln.b},
            !.stopAcc[ln.b] = IF ln.b \in o.stopped THEN @ ELSE Len(o.acc[ln.b])]
StepStopE(cfg, o, ln) ==
  LET X == {x \in o.xw : x.k = "stop" /\ x.d = ln.d}
      x == CHOOSE y \in X : TRUE
      \* a call that found the bus not running (never started, or another stop() already in progress) returns at once and promises nothing
      o1 == Bump([o EXCEPT !.xw = @ \ X, !.stopT[ln.b] = IF X # {} /\ x.before # {} /\ @ < 0 THEN ln.t ELSE @], "stopE")
      bound == (IF x.tmo > 0 THEN x.tmo ELSE 0) + 100
      w == IF X = {} THEN {}
           ELSE (IF ln.t - x.t0 > bound THEN {W("C16.slow", 0, ln.b, "", ln.t - x.t0, "")} ELSE {})
             \cup (IF ln.exc # "" THEN {W("C16.raised", 0, ln.b, "", 0, ln.exc)} ELSE {})
  IN AddW(o1, w)

StepCancelRL(cfg, o, ln) == IF ~ln.had THEN o ELSE      \* nothing to cancel: the bus has no background task
                            [o EXCEPT !.crl = @ \cup {ln.b}, !.stopped = @ \cup {ln.b},
                                      !.stopAcc[ln.b] = IF ln.b \in o.stopped THEN @ ELSE Len(o.acc[ln.b])]

\* ------------------------------------------------------------------------
\* expect (C18)
\* ------------------------------------------------------------------------
FilterOK(f, n) == CASE f = "any" -> TRUE [] f = "none" -> FALSE [] f = "odd" -> n % 2 = 1 [] f = "even" -> n % 2 = 0
                    [] f = "big" -> n >= 2 [] OTHER -> FALSE
StepExpB(cfg, o, ln) ==
  [o EXCEPT !.exps = @ \cup {[x |-> ln.x, d |-> ln.d, b |-> ln.b, ty |-> ln.ty, inc |-> ln.inc, exc |-> ln.exc, t0 |-> ln.t,
                              tmo |-> ln.tmo, cands |-> <<>>, done |-> FALSE,
                              sub |-> IF "sub" \in DOMAIN ln THEN ln.sub ELSE TRUE]}]     \* (FALSE: cancelled before its first step, never subscribes)
StepExpE(cfg, o, ln) ==
  LET X == {x \in o.exps : x.x = ln.x}
      x == CHOOSE y \in X : TRUE
      o1 == Bump([o EXCEPT !.exps = (@ \ X) \cup {[x EXCEPT !.done = TRUE]}], "expE")
      m == SelectSeq(x.cands, LAMBDA c : x.inc # "boom" /\ FilterOK(x.inc, c[2]) /\ ~FilterOK(x.exc, c[2]))
      w == IF X = {} THEN {}
           ELSE (IF o.reg[ln.b] # Cardinality({h \in Handlers(cfg) : h.bus = ln.b /\ (~IsLate(h) \/ h.id \in o.lreg)}) + Cardinality({y \in o.exps : y.b = ln.b /\ ~y.done /\ y.sub /\ y.x # ln.x}) THEN {W("C18.subscription_leak", ln.e, ln.b, "", ln.x, ln.err)} ELSE {})
             \cup (IF ln.e # 0 /\ (m = <<>> \/ m[1][1] # ln.e) THEN {W("C18.wrong_event", ln.e, ln.b, "", ln.x, "")} ELSE {})
             \cup (IF ln.e = 0 /\ ln.err = "Timeout" /\ m # <<>> /\ x.tmo >= 0 /\ m[1][3] < x.t0 + x.tmo
                   THEN {W("C18.missed", m[1][1], ln.b, "", ln.x, "")} ELSE {})
             \cup (IF ln.e = 0 /\ ln.err = "Timeout" /\ (x.tmo < 0 \/ ln.t < x.t0 + x.tmo) THEN {W("C18.early_timeout", 0, ln.b, "", ln.x, "")} ELSE {})
             \cup (IF ln.e = 0 /\ ln.err \notin {"Timeout", "Cancelled"} THEN {W("C18.raised", 0, ln.b, "", ln.x, ln.err)} ELSE {})
             \* the timeout is a deadline for the whole call: it neither fires late nor lets a later match through
             \cup (IF x.tmo >= 0 /\ ln.err # "Cancelled" /\ ln.t > x.t0 + x.tmo THEN {W("C18.late", ln.e, ln.b, "", ln.x, ln.err)} ELSE {})
  IN AddW(o1, w)

\* ------------------------------------------------------------------------
\* processing records (probe lines; used for expect candidates, C14, C15, C17)
\* ------------------------------------------------------------------------
StepProcB(cfg, o, ln) ==
  LET n == IF ln.n >= 0 THEN ln.n ELSE 0
      \* why is the draining handler still draining?  "work": something of the awaited tree is still queued / held / being processed;
      \* "nowork": nothing of it is left anywhere, yet it is not complete; "done": the awaited event is already complete
      drainer == {z \in o.open : z.act = ln.oa /\ z.aw # 0}
      kind == IF ln.ok # "in" \/ drainer = {} THEN "work"
              ELSE LET aw == (CHOOSE z \in drainer : TRUE).aw IN
                   IF o.snap[aw].sig THEN "done"
                   ELSE IF \E d \in Sub(o, aw) : \E b \in DOMAIN o.acc : InSeq(d, o.acc[b]) /\ (InSeq(d, o.q[b]) \/ ~ProcFinished(o, b, d)) THEN "work"
                   ELSE "nowork"
      \* is the event taken by an inline drain part of the tree the draining handler is awaiting?
      related == drainer = {} \/ ln.e \in Sub(o, (CHOOSE z \in drainer : TRUE).aw)
      o1 == [o EXCEPT !.procB = @ \cup {<<ln.b, ln.e>>},
                      !.lexp = @ \cup {<<ln.b, ln.e, h.id>> : h \in {g \in Puppets(cfg, ln.b, o.ety[ln.e]) : IsLate(g) /\ g.id \in o.lreg}},
                      !.take = IF ln.ok = "in" THEN {tk \in @ : ~(tk[1] = ln.b /\ tk[2] = ln.e)} \cup {<<ln.b, ln.e, kind, related>>} ELSE @,
                      \* once the draining handler processes something else first (F0), other tasks get to run: its await is no longer "immediate"
                      !.open = IF ln.ok = "in" THEN {IF z.act = ln.oa /\ z.aw # ln.e THEN [z EXCEPT !.awim = FALSE] ELSE z : z \in @} ELSE @,
                      !.exps = {IF ~x.done /\ x.b = ln.b /\ x.ty = o.ety[ln.e] THEN [x EXCEPT !.cands = Append(@, <<ln.e, n, ln.t>>)] ELSE x : x \in @}]
  IN o1
StepReg(cfg, o, ln) == [o EXCEPT !.lreg = @ \cup {ln.h}]
StepProcE(cfg, o, ln) == Bump([o EXCEPT !.proc[ln.b] = Append(@, ln.e)], "complete")
StepProcX(cfg, o, ln) == [o EXCEPT !.procX = @ \cup {<<ln.b, ln.e, ln.exc>>}]

\* ------------------------------------------------------------------------
\* write-ahead log (C17)
\* ------------------------------------------------------------------------
StepWal(cfg, o, ln) ==
  LET o1 == Bump([o EXCEPT !.walw[ln.b] = Append(@, ln.e)], "wal")
      s == o.snap[ln.e]
      w == IF ln.e = 0 THEN {W("C17.undecodable", 0, ln.b, "", 0, "")}
           ELSE IF \E i \in DOMAIN s.res : s.res[i].b = ln.b /\ ~Terminal(s.res[i].st)
                THEN {W("C17.early", ln.e, ln.b, "", 0, "line written before the handlers of this bus finished")} ELSE {}
  IN AddW(o1, w)
StepWalFault(cfg, o, ln) == [o EXCEPT !.walf = @ \cup {<<ln.b, ln.e>>}]
WalEndW(cfg, o, ln) ==
  UNION { LET b == p[1]  items == p[2]
              got == [i \in 1..Len(items) |-> items[i][1]]
              failed == {x[2] : x \in {y \in o.walf : y[1] = b}}
              want == SeqMinus(o.proc[b], failed)
              have == SeqMinus(got, failed)
          IN (IF \E i \in DOMAIN items : ~items[i][2] THEN {W("C17.unfaithful", items[CHOOSE i \in DOMAIN items : ~items[i][2]][1], b, "", 0, "")} ELSE {})
             \cup (IF Len(have) < Len(want) THEN {W("C17.missing_line", 0, b, "", Len(want) - Len(have), "")} ELSE {})
             \cup (IF Len(have) > Len(want) THEN {W("C17.extra_line", 0, b, "", Len(have) - Len(want), "")} ELSE {})
             \cup (IF Len(have) = Len(want) /\ have # want THEN {W("C17.order", 0, b, "", 0, "")} ELSE {})
             \cup (IF got # o.walw[b] THEN {W("X.wal_log_mismatch", 0, b, "", 0, "")} ELSE {})
        : p \in Range(ln.wal) }

\* ------------------------------------------------------------------------
\* accessor (C11)
\* ------------------------------------------------------------------------
StepAcc(cfg, o, ln) ==
  LET s == o.snap[ln.e]
      errs == SelectSeq(s.res, LAMBDA r : r.err # "")
      anyflag == ln.rany
      w == IF anyflag /\ errs # <<>> /\ ~(ln.k = "raise" /\ ln.v = errs[1].err)
           THEN {W("C11.accessor", ln.e, "", errs[1].h, 0, ln.v)}
           ELSE IF (~anyflag \/ errs = <<>>) /\ ln.k = "raise" /\ ln.v \notin {"X:ValueError"}
           THEN {W("C11.accessor_spurious", ln.e, "", "", 0, ln.v)} ELSE {}
  IN AddW(Bump(o, "acc"), w)

\* ------------------------------------------------------------------------
\* End of the execution: quiescence clauses
\* ------------------------------------------------------------------------
TimeoutTouched(o) == \* events touched by a timeout cancellation: any result Timeout / Cancelled, plus their ancestors and descendants
  LET T0 == {e \in 1..o.n : \E i \in DOMAIN o.snap[e].res : o.snap[e].res[i].err \in {"Timeout", "Cancelled:interrupted", "Cancelled:pending", "Cancelled"}}
  IN T0 \cup UNION {Anc(o, e) \cup Desc(o, e) : e \in T0}

StepEnd(cfg, o, ln) ==
  LET aborted == ln.abort # ""
      blockedOps == {<<x.d, x.op>> : x \in Range(ln.blocked)}
      hung == blockedOps # {} \/ ln.open # <<>>
      live == {b \in BusNames(cfg) : b \notin o.stopped}
      TT == TimeoutTouched(o)
      \* ---- C07 termination
      w7t == IF aborted THEN {W("Q.no_quiescence", 0, "", "", 0, ln.abort)} ELSE {}
      \* ---- liveness: blocked waiters
      TouchesStopped(e) == \E d \in Sub(o, e) : \E b \in o.stopped : InSeq(d, o.acc[b])
      wl == {W(CASE x.k = "a" -> "C03.hang" [] x.k = "idle" -> "C15.hang" [] x.k = "stop" -> "C16.hang" [] OTHER -> "C18.hang",
               x.e, x.b, "", x.d, "") : x \in {y \in o.xw : (\E z \in blockedOps : z[1] = y.d)
                                                        /\ ~(y.k = "a" /\ TouchesStopped(y.e)) /\ ~(y.k = "idle" /\ y.b \in o.stopped)}}
            \cup {W("C04.hang", x.aw, x.b, x.h, x.act, "") : x \in {y \in o.open : y.aw # 0}}
            \cup {W("C10.never_cancelled", x.e, x.b, x.h, x.act, "") : x \in {y \in o.open : y.dl >= 0 /\ y.dl < ln.t}}
      \* ---- C01: every accepted event was delivered to every matching scenario handler of the bus
      w1 == UNION { {W("C01.missing", e, b, h.id, 0, "") :
                       h \in {g \in Expected(cfg, o, b, e) : <<b, e, g.id>> \notin o.runs
                               /\ ~\E i \in ResOf(o.snap[e], g.id, b) : CancelledByTimeout(o, e, i) \/ InterruptedUnstarted(o, e, i)}}
                  : <<b, e>> \in {p \in live \X (1..o.n) : InSeq(p[2], o.acc[p[1]])} }
      \* ---- C14: accepted events are processed by the bus
      w14 == {W("C14.never_processed", p[2], p[1], "", 0, IF InSeq(p[2], o.q[p[1]]) THEN "still_queued" ELSE "vanished")
                : p \in {pp \in live \X (1..o.n) : InSeq(pp[2], o.acc[pp[1]]) /\ pp \notin o.procB}}
      \* ---- completion at quiescence (C03 converse / C10 / C11)
      wq == {W(IF e \in TT THEN "C10.incomplete" ELSE "C03.not_completed", e, "", "", 0, o.snap[e].st)
               : e \in {z \in AcceptedAnywhere(o) : ~Done(o, z) /\ \A d \in Sub(o, z) : \A b \in DOMAIN o.acc : InSeq(d, o.acc[b]) => b \in live}}
      \* ---- C10: results of timed-out / interrupted handlers
      w10 == {W("C10.result", r.e, r.b, r.h, r.act, "")
                : r \in {z \in o.racts : z.out = "cancel" /\ z.dl >= 0 /\ z.t1 = z.dl /\ ~z.encdl /\
                                         ~\E i \in ResOf(o.snap[z.e], z.h, z.b) : o.snap[z.e].res[i].st = "error" /\ o.snap[z.e].res[i].err = "Timeout"}}
             \cup {W("C10.result", r.e, r.b, r.h, r.act, "interrupted")
                : r \in {z \in o.racts : z.out = "cancel" /\ ~(z.dl >= 0 /\ z.t1 = z.dl /\ ~z.encdl) /\
                                         ~\E i \in ResOf(o.snap[z.e], z.h, z.b) : o.snap[z.e].res[i].st = "error" /\ o.snap[z.e].res[i].err \in {"Timeout", "Cancelled:interrupted"}}}
      \* ---- C11: raised / returned exceptions are that handler's error result, identical object
      w11 == {W("C11.result", r.e, r.b, r.h, r.act, "")
                : r \in {z \in o.racts : z.out \in {"raise", "retexc"} /\
                                         ~\E i \in ResOf(o.snap[z.e], z.h, z.b) : o.snap[z.e].res[i].st = "error" /\ o.snap[z.e].res[i].err = ("E:a" \o ToString(z.act)) /\ o.snap[z.e].res[i].val = "none"}}
      \* ---- C07 at quiescence: reach set, once per bus, path
      w7 == UNION { LET first == CHOOSE i \in DOMAIN o.disp : o.disp[i].e = e /\ \A j \in DOMAIN o.disp : o.disp[j].e = e => i <= j
                        entries == {i \in DOMAIN o.disp : o.disp[i].e = e /\ ~o.disp[i].fw}
                        b0 == o.disp[first].b
                        got == {b \in BusNames(cfg) : InSeq(e, o.acc[b])}
                        want == ReachFrom(cfg, {b0}, o.ety[e])
                        FirstOk(b) == CHOOSE k \in DOMAIN o.disp : o.disp[k].e = e /\ o.disp[k].b = b /\ o.disp[k].out = "ok"
                                          /\ \A j \in DOMAIN o.disp : (o.disp[j].e = e /\ o.disp[j].b = b /\ o.disp[j].out = "ok") => k <= j
                        order == SetToSortSeq(got, LAMBDA x, y : FirstOk(x) < FirstOk(y))
                        \* (a forward that its target rejected for capacity is C14's business: the statement about reach and path assumes every
                        \*  forward is accepted)
                        fwdRejected == \E k \in DOMAIN o.disp : o.disp[k].e = e /\ o.disp[k].fw /\ o.disp[k].out # "ok"
                    IN IF Cardinality(entries) # 1 \/ o.disp[first].out # "ok" \/ want \cap o.stopped # {} \/ fwdRejected THEN {}
                       ELSE (IF got # want THEN {W("C07.reach", e, b0, "", 0, "")} ELSE {})
                         \cup (IF o.snap[e].path # order THEN {W("C07.path", e, b0, "", 0, "")} ELSE {})
                         \cup {W("C07.results", e, r[1], r[3], 0, "") : r \in {k \in o.runs : k[2] = e /\ ResOf(o.snap[e], k[3], k[1]) = {}}}
                  : e \in 1..o.n }
      \* ---- C16: a cancelled background task terminates
      w16 == {W("C16.cancel_ignored", 0, b, "", 0, "") : b \in {c \in o.crl : ~InSeq(c, ln.crldone)}}
      harness == IF ln.failed # <<>> THEN {W("X.driver_failed", 0, "", "", 0, ln.failed[1])} ELSE {}
      o1 == Bump(o, "end")
  IN AddW(o1, w7t \cup wl \cup harness \cup w16 \cup (IF aborted THEN {} ELSE w1 \cup w14 \cup wq \cup w10 \cup w11 \cup w7 \cup WalEndW(cfg, o, ln)))

\* ------------------------------------------------------------------------
\* the monitor
\* ------------------------------------------------------------------------
\* o: state before the line; o0: o with the projected public state after the line already applied
StepCore(cfg, o, o0, ln) ==
  LET o1 == CASE ln.a = "Disp"     -> StepDisp(cfg, o0, ln)
              [] ln.a = "HEnter"   -> StepEnter(cfg, o0, ln)
              [] ln.a = "HExit"    -> StepExit(cfg, o0, ln)
              [] ln.a = "HOp"      -> StepOp(cfg, o0, ln)
              [] ln.a = "HReadBus" -> StepReadBus(cfg, o0, ln)
              [] ln.a = "AwB"      -> StepAwB(cfg, o0, ln)
              [] ln.a = "AwE"      -> StepAwE(cfg, o0, ln)
              [] ln.a = "XAwB"     -> StepXAwB(cfg, o0, ln)
              [] ln.a = "XAwE"     -> StepXAwE(cfg, o0, ln)
              [] ln.a = "IdleB"    -> StepIdleB(cfg, o0, ln)
              [] ln.a = "IdleE"    -> StepIdleE(cfg, o0, ln)
              [] ln.a = "Reg"      -> StepReg(cfg, o0, ln)
              [] ln.a = "StopB"    -> StepStopB(cfg, o0, ln)
              [] ln.a = "StopE"    -> StepStopE(cfg, o0, ln)
              [] ln.a = "CancelRL" -> StepCancelRL(cfg, o0, ln)
              [] ln.a = "ExpB"     -> StepExpB(cfg, o0, ln)
              [] ln.a = "ExpE"     -> StepExpE(cfg, o0, ln)
              [] ln.a = "ProcB"    -> StepProcB(cfg, o0, ln)
              [] ln.a = "ProcE"    -> StepProcE(cfg, o0, ln)
              [] ln.a = "ProcX"    -> StepProcX(cfg, o0, ln)
              [] ln.a = "Acc"      -> StepAcc(cfg, o0, ln)
              [] ln.a = "Wal"      -> StepWal(cfg, o0, ln)
              [] ln.a = "WalFault" -> StepWalFault(cfg, o0, ln)
              [] ln.a = "End"      -> StepEnd(cfg, o0, ln)
              [] OTHER             -> o0
  IN [AfterEvery(cfg, o, o1, ln) EXCEPT !.nl = @ + 1, !.lastln = [x \in (DOMAIN ln) \ {"evs", "hist", "q", "reg"} |-> ln[x]]]

Step(cfg, o, ln) ==
  StepCore(cfg, o, [o EXCEPT !.snap = ApplyEvs(@, ln.evs), !.ety = ApplyTys(@, ln.evs), !.hist = ApplyPairs(@, ln.hist),
                             !.q = ApplyPairs(@, ln.q), !.reg = ApplyPairs(@, ln.reg), !.now = ln.t], ln)
=============================================================================
