------------------------------ MODULE MC_one ------------------------------
(* One serial bus with one wildcard scenario handler: deep dispatch chains through the same handler (recursion guard, finding F2). *)
EXTENDS Bubus
MCfg == [buses |-> <<[name |-> "b1", parallel |-> FALSE, maxhist |-> 0]>>,
         handlers |-> <<[id |-> "w_b1", bus |-> "b1", pat |-> "*", kind |-> "async", to |-> ""]>>]
MTypes == <<"T">>
=============================================================================
