SPECIFICATION Spec
CONSTANTS
  MaxLen = 3
  Part = "views"
INVARIANT Emit
INVARIANT ViewsArePure
CHECK_DEADLOCK FALSE
