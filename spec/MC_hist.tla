------------------------------ MODULE MC_hist ------------------------------
(* Bounded history and scaled-down capacity limits: one bus, max_history_size in {1,2}, queue bound and backlog limit scaled to 2 / 3. *)
EXTENDS Bubus
MkCfg(n) == [buses |-> <<[name |-> "b1", parallel |-> FALSE, maxhist |-> n]>>,
             handlers |-> <<[id |-> "w_b1", bus |-> "b1", pat |-> "*", kind |-> "async", to |-> ""]>>]
InitAll == \E n \in {1, 2} : InitWith(MkCfg(n))
SpecAll == InitAll /\ [][Next]_vars
MTypes == <<"T">>
=============================================================================
