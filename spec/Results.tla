------------------------------ MODULE Results ------------------------------
(***************************************************************************
 Sequential specification for property C12 (DESIGN.md 4.4): what a handler's return
 value becomes (EventResult.update with a declared result type) and what the six result
 accessors return for a recorded sequence of results and a combination of flags.

 There is no scheduling here, so the binding is *exact replay*: TLC enumerates the whole
 bounded input space (Init picks a case, one state per case) and prints, for every case, the
 expected outcome computed by the operators below; harness/seqcheck.py performs the same
 case on the real objects of /repo and compares value, order, exception kind and identity.

 Values are abstract tokens; the harness maps each token to concrete Python values of that
 class (and, in the thorough tier, to many generated ones).
 ***************************************************************************)
EXTENDS Naturals, Sequences, FiniteSets, TLC, Json, SequencesExt

\* ---------------------------------------------------------------------------
\* Part A - typing of one returned value
\* ---------------------------------------------------------------------------
TypeClasses == {"none", "int", "str", "list_int", "list_str", "dict_str_int", "dict_str_str", "int_or_none", "opt_str", "opt_int", "union_int_str", "union_str_float",
                "literal", "literal2", "model", "model2"}
ValueClasses == {"None", "conforming", "coercible", "nonconforming", "exception", "event"}
\* outcome of update(result = v): status, what is stored, the error kind
Typed(tc, vc) ==
  CASE vc = "exception"                      -> [st |-> "error",     val |-> "none",     err |-> "the_returned_exception"]
    [] vc = "None"                           -> [st |-> "completed", val |-> "none",     err |-> ""]
    [] vc = "event"                          -> [st |-> "completed", val |-> "same",     err |-> ""]   \* forwarded events pass unchecked
    [] tc = "none"                           -> [st |-> "completed", val |-> "same",     err |-> ""]   \* no declared type: stored unchanged
    [] vc = "conforming"                     -> [st |-> "completed", val |-> "equal",    err |-> ""]   \* stored value equals the returned one and conforms
    [] vc = "coercible"                      -> [st |-> "completed", val |-> "coerced",  err |-> ""]   \* stored value conforms to the type
    [] vc = "nonconforming"                  -> [st |-> "error",     val |-> "none",     err |-> "ValueError"]
TypeCases == {[tc |-> tc, vc |-> vc] : tc \in TypeClasses, vc \in ValueClasses}

\* ---------------------------------------------------------------------------
\* Part B - accessor views over a sequence of recorded results
\* ---------------------------------------------------------------------------
\* result tokens: kind of the recorded EventResult
Tokens == {"none", "zero", "i1", "s1", "d0", "d1", "d2", "d3", "l0", "l1", "l2", "ev", "err1", "err2"}
IsErr(t) == t \in {"err1", "err2"}
IsDict(t) == t \in {"d0", "d1", "d2", "d3"}
IsList(t) == t \in {"l0", "l1", "l2"}
Keys(t) == CASE t = "d1" -> {"a"} [] t = "d2" -> {"a", "c"} [] t = "d3" -> {"b"} [] OTHER -> {}
Falsy(t) == t \in {"none", "zero", "d0", "l0"}
Items(t) == CASE t = "l1" -> <<"x1">> [] t = "l2" -> <<"x2", "x3">> [] OTHER -> <<>>
\* the default include filter (_event_result_is_truthy): completed, not None, no error, not an event
Truthy(t) == ~IsErr(t) /\ t # "none" /\ t # "ev"
Incl(f, t) == CASE f = "default" -> Truthy(t) [] f = "all" -> TRUE [] f = "nothing" -> FALSE [] f = "completed" -> ~IsErr(t) [] OTHER -> FALSE

Filtered(rs, f, any, none) ==   \* event_results_filtered
  LET errs == SelectSeq(rs, IsErr)
      inc == SelectSeq(rs, LAMBDA t : Incl(f, t))
  IN IF any /\ errs # <<>> THEN [k |-> "raise", v |-> <<errs[1]>>]           \* the first recorded error, the identical object
     ELSE IF none /\ inc = <<>> THEN [k |-> "raise", v |-> <<"ValueError">>]
     ELSE [k |-> "ok", v |-> inc]
Idx(rs, f) == SelectSeq([i \in 1..Len(rs) |-> i], LAMBDA i : Incl(f, rs[i]))   \* positions of the included results (handler order)

RECURSIVE MergeDicts(_, _, _)
\* merged: function key -> token that supplied it; returns "conflict" record when keys collide and conflicts are refused
MergeDicts(ds, acc, refuse) ==
  IF ds = <<>> THEN [k |-> "ok", v |-> acc]
  ELSE LET d == Head(ds) IN
       IF Falsy(d) THEN MergeDicts(Tail(ds), acc, refuse)
       ELSE IF refuse /\ (Keys(d) \cap DOMAIN acc) # {} THEN [k |-> "raise", v |-> <<"ValueError">>]
       ELSE MergeDicts(Tail(ds), [x \in DOMAIN acc \cup Keys(d) |-> IF x \in Keys(d) THEN d ELSE acc[x]], refuse)
RECURSIVE Concat(_)
Concat(ls) == IF ls = <<>> THEN <<>> ELSE Items(Head(ls)) \o Concat(Tail(ls))

Accessor(name, rs, f, any, none, confl) ==
  CASE name = "event_result" ->
         LET r == Filtered(rs, f, any, none) IN IF r.k = "raise" THEN r ELSE [k |-> "ok", v |-> IF r.v = <<>> THEN <<"none">> ELSE <<r.v[1]>>]
    [] name \in {"event_results_list", "event_results_by_handler_id", "event_results_by_handler_name"} ->
         Filtered(rs, f, any, none)         \* values in handler order (the dict variants: keyed by the handlers in that order)
    [] name = "event_results_flat_dict" ->
         \* errors still count for raise_if_any; only dict results that also pass the filter are merged
         LET r2 == Filtered(rs, f, any, FALSE)
             ds == SelectSeq(rs, LAMBDA t : IsDict(t) /\ Incl(f, t))
         IN IF r2.k = "raise" THEN r2
            ELSE IF none /\ ds = <<>> THEN [k |-> "raise", v |-> <<"ValueError">>]
            ELSE LET m == MergeDicts(ds, <<>>, confl) IN
                 IF m.k = "raise" THEN m ELSE [k |-> "dict", v |-> [x \in DOMAIN m.v |-> m.v[x]]]
    [] name = "event_results_flat_list" ->
         LET r2 == Filtered(rs, f, any, FALSE)
             ls == SelectSeq(rs, LAMBDA t : IsList(t) /\ Incl(f, t))
         IN IF r2.k = "raise" THEN r2
            ELSE IF none /\ ls = <<>> THEN [k |-> "raise", v |-> <<"ValueError">>]
            ELSE [k |-> "ok", v |-> Concat(ls)]

Accessors == {"event_result", "event_results_list", "event_results_by_handler_id", "event_results_by_handler_name",
              "event_results_flat_dict", "event_results_flat_list"}
Filters == {"default", "all", "nothing", "completed"}

CONSTANTS MaxLen, Part     \* Part: "types" | "views"
SeqsUpTo(S, n) == UNION {[1..k -> S] : k \in 0..n}
ViewCases == {[rs |-> rs, f |-> f, any |-> any, none |-> none, confl |-> confl] :
                 rs \in SeqsUpTo(Tokens, MaxLen), f \in Filters, any \in BOOLEAN, none \in BOOLEAN, confl \in BOOLEAN}

VARIABLE c
Init == IF Part = "types" THEN c \in TypeCases ELSE c \in ViewCases
Next == UNCHANGED c
Spec == Init /\ [][Next]_c

\* one JSON line per case with the expected outcome
Emit ==
  IF Part = "types"
  THEN PrintT(<<"CASE", ToJson([tc |-> c.tc, vc |-> c.vc, exp |-> Typed(c.tc, c.vc)])>>)
  ELSE PrintT(<<"CASE", ToJson([rs |-> c.rs, f |-> c.f, any |-> c.any, none |-> c.none, confl |-> c.confl,
                                idx |-> Idx(c.rs, c.f),
                                exp |-> [a \in Accessors |-> Accessor(a, c.rs, c.f, c.any, c.none, c.confl)]])>>)

\* sanity invariants of the reference itself (checked by TLC on every case)
ViewsArePure ==
  Part = "views" =>
    /\ \A a \in {"event_results_list", "event_results_by_handler_id", "event_results_by_handler_name"} :
          LET r == Accessor(a, c.rs, c.f, c.any, c.none, c.confl) IN
          r.k = "ok" => /\ Len(r.v) <= Len(c.rs)
                        /\ r.v = SelectSeq(c.rs, LAMBDA t : Incl(c.f, t))                    \* never invent, drop or reorder
    /\ LET r == Accessor("event_result", c.rs, c.f, c.any, c.none, c.confl) IN
       r.k = "raise" => (c.any /\ \E i \in DOMAIN c.rs : IsErr(c.rs[i])) \/ c.none          \* raises only when asked to
=============================================================================
