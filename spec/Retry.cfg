SPECIFICATION Spec
INVARIANT Bounded
INVARIANT Conserved
INVARIANT HoldersAlive
INVARIANT StrictNoBody
INVARIANT AttemptBound
INVARIANT BackoffExact
INVARIANT AllReleased
INVARIANT Emit
CHECK_DEADLOCK FALSE
