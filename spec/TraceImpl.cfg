SPECIFICATION TSpec
CONSTANTS
  Cfg0 = 0
  Types = 0
  MaxEv = 12
  MaxAct = 14
  Budget = 9999
  NDrv = 3
  DrvBudget = 9999
  MaxDepth = 99
  QueueCap = 50
  HardLimit = 100
  WithErrors = TRUE
  WithIdle = TRUE
  WithSleep = TRUE
  KeepLog = FALSE
INVARIANT Book
POSTCONDITION Post
CHECK_DEADLOCK FALSE
