SPECIFICATION TSpec
CONSTANTS
  Cfg0 = 0
  Types = 0
  MaxEv = 12
  MaxAct = 14
  Budget = 9999
  NDrv = 3
  DrvBudget = 9999
  MaxDepth = 99
  QueueCap = 50
  HardLimit = 100
  WithErrors = TRUE
  WithIdle = TRUE
  WithSleep = TRUE
  WithExpect = TRUE
  MaxExpect = 9
  ExpFilters = {}
  WithWalFaults = TRUE
  WithStop = TRUE
  TimeoutTypes = {"R", "C", "G", "L", "K", "U", "S", "Q", "V", "W", "Z", "M", "W1", "W2", "W3", "R1", "R2", "C1", "C2", "G1", "E", "E2", "T", "P", "T0", "T1", "T2", "T3"}
  KeepLog = FALSE
INVARIANT Book
POSTCONDITION Post
CHECK_DEADLOCK FALSE
