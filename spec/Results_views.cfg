SPECIFICATION Spec
CONSTANTS
  MaxLen = 2
  Part = "views"
INVARIANT Emit
INVARIANT ViewsArePure
CHECK_DEADLOCK FALSE
