------------------------------ MODULE MC_core ------------------------------
(* Model-checking instance: two serial buses with one wildcard scenario handler each. *)
EXTENDS Bubus
MCfg == [buses |-> <<[name |-> "b1", parallel |-> FALSE, maxhist |-> 0], [name |-> "b2", parallel |-> FALSE, maxhist |-> 0]>>,
         handlers |-> <<[id |-> "w_b1", bus |-> "b1", pat |-> "*", kind |-> "async", to |-> ""],
                        [id |-> "w_b2", bus |-> "b2", pat |-> "*", kind |-> "async", to |-> ""]>>]
MTypes == <<"T">>
=============================================================================
