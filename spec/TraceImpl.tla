---------------------------- MODULE TraceImpl ----------------------------
(***************************************************************************
 Code -> spec, conformance side (DESIGN.md 5.4): replays traces recorded from the real
 bubus through the *actions of Bubus.tla itself*.  Every logged line must be explained
 by the model action that emits that line, with the logged arguments, and the model
 state after it must equal the projected state of the implementation (queues,
 histories, unfinished counts, lock, idle/running flags, every event's public state).
 Unlogged steps (queue hand-off to a run loop, lock waits, handler-task creation,
 zero-sleeps ...) are chosen by TLC, at most MaxSilent between two logged lines.
 Verdict per trace: ACCEPT, or REJECT with the line no action explains.
 A rejection means the code and the detailed model drifted apart (MODEL-DRIFT);
 whether a *property* is violated is decided by TraceObs on the same trace.
 ***************************************************************************)
EXTENDS Bubus, IOUtils, TLCExt
Traces == JsonDeserialize(IOEnv.TRACE_FILE)
VARIABLES tid, l, sil
tvars == <<tid, l, sil>>
MaxSilent == 10
ASSUME TLCSet(2, {}) /\ TLCSet(3, [t \in 1..Len(JsonDeserialize(IOEnv.TRACE_FILE)) |-> 0])
Tr == Traces[tid]
Ln == Tr.lines[l]

TInit == /\ tid \in 1..Len(Traces) /\ l = 1 /\ sil = 0
         /\ InitWith(Traces[tid].cfg)

ResEq(r, s) == Len(r) = Len(s) /\ \A i \in DOMAIN r : r[i].h = s[i].h /\ r[i].b = s[i].b /\ r[i].st = s[i].st /\ r[i].err = s[i].err /\ r[i].kids = s[i].kids
StateOK ==
  LET s == Ln.s IN
  /\ \A b \in B : /\ q'[b] = s.q[b] /\ hist'[b] = s.hist[b] /\ unf'[b] = s.unf[b]
                  /\ idle'[b] = s.idle[b] /\ running'[b] = s.running[b]
  /\ semv' = s.semv /\ depth' = s.depth
  /\ nev' = Len(s.snap)
  /\ \A e \in 1..Len(s.snap) : LET m == SnapOf(ev'[e])  r == s.snap[e] IN
        m.st = r.st /\ m.sig = r.sig /\ m.par = r.par /\ m.path = r.path /\ ResEq(m.res, r.res)

Is(a) == l <= Len(Tr.lines) /\ Ln.a = a
OwnerT == IF Ln.ok = "rl" THEN RL(Ln.b) ELSE HT(Ln.oa)

Logged ==
  \/ Is("Disp") /\ ~Ln.fw /\ Ln.act # 0 /\ nev + 1 = Ln.e /\ task[HT(Ln.act)].pc # "sync" /\ HDispatch(Ln.act, Ln.b, Ln.ty) /\ Last(o'.disp).out = Ln.out
  \/ Is("Disp") /\ ~Ln.fw /\ Ln.act = 0 /\ nev + 1 = Ln.e /\ DDispatchN(Ln.drv, Ln.b, Ln.ty, Ln.n) /\ Last(o'.disp).out = Ln.out
  \/ Is("Disp") /\ ~Ln.fw /\ Ln.act = 0 /\ Ln.e <= nev /\ DRedispatch(Ln.drv, Ln.e, Ln.b) /\ Last(o'.disp).out = Ln.out
  \/ Is("Disp") /\ ~Ln.fw /\ Ln.act # 0 /\ Ln.e <= nev /\ task[HT(Ln.act)].pc # "sync" /\ task[HT(Ln.act)].e = Ln.e /\ HRedispatch(Ln.act, Ln.b) /\ Last(o'.disp).out = Ln.out
  \/ Is("Disp") /\ Ln.fw /\ \E t \in Tasks : /\ task[t].fe = Ln.e /\ task[t].todo # <<>> /\ Head(task[t].todo).kind = "fwd"
                                            /\ Head(task[t].todo).to = Ln.b /\ OwnerNext(t) /\ Last(o'.disp).out = Ln.out
  \/ Is("ProcB") /\ Ln.ok = "rl" /\ task[RL(Ln.b)].e = Ln.e /\ (RLBegin(Ln.b) \/ RLGranted(Ln.b)) /\ task'[RL(Ln.b)].pc = "pb0"
  \/ Is("ProcB") /\ Ln.ok = "in" /\ q[Ln.b] # <<>> /\ Head(q[Ln.b]) = Ln.e /\ InlineTake(Ln.oa, Ln.b)
  \/ Is("ProcX") /\ Ln.exc # "Cancelled" /\ task[OwnerT].fe = Ln.e /\ task[OwnerT].fb = Ln.b /\ ProcSelect(OwnerT) /\ task'[OwnerT].pc = "abort"
  \/ Is("HEnter") /\ Ln.sync /\ nact + 1 = Ln.act /\ \E t \in Tasks : /\ task[t].fe = Ln.e /\ task[t].fb = Ln.b /\ task[t].todo # <<>>
                                /\ Head(task[t].todo).id = Ln.h /\ Head(task[t].todo).kind = "sync"
                                /\ TaskLabelKind(t) = Ln.byk /\ Ln.b = Ln.rb /\ OwnerNext(t)
  \/ Is("Disp") /\ ~Ln.fw /\ Ln.act # 0 /\ nev + 1 = Ln.e /\ task[HT(Ln.act)].pc = "sync" /\ SyncDispatch(task[HT(Ln.act)].owner, Ln.b, Ln.ty) /\ Last(o'.disp).out = Ln.out
  \/ Is("HExit") /\ task[HT(Ln.act)].pc = "sync" /\ SyncFinish(task[HT(Ln.act)].owner, IF Ln.out = "ret" THEN "ret" ELSE "raise")
  \/ Is("HReadBus") /\ task[HT(Ln.act)].pc = "sync" /\ task[HT(Ln.act)].b = Ln.rb /\ UNCHANGED vars
  \/ Is("HEnter") /\ ~Ln.sync /\ task[HT(Ln.act)].b = Ln.b /\ task[HT(Ln.act)].e = Ln.e /\ task[HT(Ln.act)].h = Ln.h
                  /\ TaskLabelKind(task[HT(Ln.act)].owner) = Ln.byk /\ Ln.b = Ln.rb /\ HStart(Ln.act)
  \/ Is("HOp") /\ Ln.op \notin {"cleanup", "cl"} /\ task[HT(Ln.act)].pc = (IF Ln.op = "y" THEN "yield" ELSE "sleep") /\ HWake(Ln.act)
  \/ Is("HOp") /\ Ln.op = "cl" /\ HSetCleanup(Ln.act)
  \/ Is("HOp") /\ Ln.op = "cleanup" /\ HCleanupBegin(Ln.act)
  \/ Is("HReadBus") /\ cur = HT(Ln.act) /\ task[HT(Ln.act)].b = Ln.rb /\ UNCHANGED vars
  \/ Is("AwB") /\ \E k \in DOMAIN task[HT(Ln.act)].kids : task[HT(Ln.act)].kids[k] = Ln.e /\ HAwaitBegin(Ln.act, k)
  \/ Is("AwE") /\ ~Ln.canc /\ task[HT(Ln.act)].aw = Ln.e /\ (HAwaitDone(Ln.act) \/ InlineGiveUp(Ln.act))
  \/ Is("AwE") /\ Ln.canc /\ task[HT(Ln.act)].aw = Ln.e /\ HCancelAw(Ln.act)
  \/ Is("HExit") /\ Ln.out = "cancel" /\ (HCancelExit(Ln.act) \/ HCleanupEnd(Ln.act))
  \/ Is("ProcX") /\ Ln.exc = "Cancelled" /\ task[OwnerT].fe = Ln.e /\ task[OwnerT].fb = Ln.b /\ (OwnerAbandon(OwnerT) \/ (Ln.ok = "rl" /\ OwnerAbandonRL(Ln.b)))
  \/ Is("HExit") /\ Ln.out # "cancel" /\ task[HT(Ln.act)].pc # "sync" /\ HFinish(Ln.act, IF Ln.out = "ret" THEN "ret" ELSE "raise")
  \/ Is("ProcE") /\ task[OwnerT].fe = Ln.e /\ task[OwnerT].fb = Ln.b /\ OwnerTail(OwnerT)
  \/ Is("XAwB") /\ \E k \in DOMAIN task[DT(Ln.d)].kids : task[DT(Ln.d)].kids[k] = Ln.e /\ DAwaitBegin(Ln.d, k)
  \/ Is("XAwE") /\ task[DT(Ln.d)].aw = Ln.e /\ DAwaitEnd(Ln.d)
  \/ Is("IdleB") /\ DIdleBegin(Ln.d, Ln.b, Ln.tmo >= 0)
  \/ Is("IdleE") /\ task[DT(Ln.d)].b = Ln.b /\ task[DT(Ln.d)].h # "stop" /\ DIdleRecheck(Ln.d) /\ task'[DT(Ln.d)].pc = "run"
  \/ Is("IdleE") /\ task[DT(Ln.d)].b = Ln.b /\ task[DT(Ln.d)].h # "stop" /\ DIdleTimeout(Ln.d)
  \/ Is("Wal") /\ \E t \in Tasks : task[t].fb = Ln.b /\ task[t].fe = Ln.e /\ WalWrite(t, FALSE)
  \/ Is("WalFault") /\ Ln.at = "write" /\ \E t \in Tasks : task[t].fb = Ln.b /\ task[t].fe = Ln.e /\ WalWrite(t, TRUE)
  \/ Is("WalFault") /\ Ln.at = "open" /\ \E t \in Tasks : task[t].fb = Ln.b /\ task[t].fe = Ln.e /\ WalOpen(t, TRUE)
  \/ Is("Reg") /\ Ln.x = Len(xh) + 1 /\ DRegister(Ln.d, Ln.h)
  \/ Is("ExpB") /\ Ln.x = Len(xh) + 1 /\ DExpectBegin(Ln.d, Ln.b, Ln.ty, Ln.inc, Ln.exc, Ln.tmo >= 0)
  \/ Is("ExpE") /\ task[DT(Ln.d)].e = Ln.x /\ Ln.err = "" /\ DExpectEnd(Ln.d, FALSE) /\ xh[Ln.x].e = Ln.e
  \/ Is("ExpE") /\ task[DT(Ln.d)].e = Ln.x /\ Ln.err = "Timeout" /\ DExpectEnd(Ln.d, TRUE)
  \/ Is("StopB") /\ Ln.d >= 1000 /\ HStopBegin(Ln.d - 1000, Ln.b)
  \/ Is("StopE") /\ Ln.d >= 1000 /\ (HStopWaitEnd(Ln.d - 1000) \/ (HStopGo(Ln.d - 1000) /\ task'[HT(Ln.d - 1000)].pc = "ops"))
  \/ Is("StopB") /\ Ln.d < 1000 /\ Ln.tmo <= 0 /\ DStopBegin(Ln.d, Ln.b)
  \/ Is("StopB") /\ Ln.d < 1000 /\ Ln.tmo > 0 /\ DStopBeginT(Ln.d, Ln.b)
  \/ Is("StopE") /\ Ln.d < 1000 /\ task[DT(Ln.d)].b = Ln.b /\ (DStopGo(Ln.d) \/ DStopWaitEnd(Ln.d) \/ DStopBody(Ln.d)) /\ task'[DT(Ln.d)].pc = "run"
  \/ Is("CancelRL") /\ DCancelRL(Ln.d, Ln.b)
  \/ (Is("Init") \/ Is("End") \/ Is("Acc")) /\ UNCHANGED vars

Counted ==   \* silent steps that change the state
  \/ \E b \in B : RLStart(b) \/ RLTake(b) \/ RLPollIdle(b) \/ (RLBegin(b) /\ task'[RL(b)].pc = "lockwait")
  \/ \E b \in B : RLDrop(b) \/ RLPollExit(b) \/ RLDie(b) \/ RLShutExit(b) \/ RLDieLocked(b) \/ RLTakeDying(b)
  \/ \E i \in 1..NDrv : (DStopGo(i) /\ task'[DT(i)].pc = "stop_wait") \/ (DStopBody(i) /\ task'[DT(i)].pc = "stop_wait") \/ DExpectGo(i)
  \/ \E i \in 1..NDrv : task[DT(i)].h = "stop" /\ (DIdleTimeout(i) \/ DIdleRecheck(i))
  \/ \E a \in 1..MaxAct : HStopGo(a) /\ task'[HT(a)].pc = "hstop_wait"
  \/ \E t \in Tasks : task[t].todo # <<>> /\ Head(task[t].todo).kind = "exp" /\ OwnerNext(t)
  \/ \E t \in Tasks : (ProcSelect(t) /\ task'[t].pc = "pb") \/ (OwnerNext(t) /\ task'[t].pc = "waith") \/ OwnerResume(t) \/ OwnerEpilogue(t) \/ OwnerAbort(t) \/ FwdReturn(t) \/ SyncReturn(t) \/ ParStart(t) \/ TimeoutFire(t) \/ WalBegin(t) \/ WalOpen(t, FALSE) \/ WalClose(t)
  \/ \E k \in 1..MaxAct : XStart(k) \/ XEnd(k) \/ XAbandon(k)
  \/ \E t \in Tasks : PCancelWake(t)
  \/ \E a \in 1..MaxAct : HSuspend(a, "yield") \/ HSuspend(a, "sleep")
  \/ \E i \in 1..NDrv : DIdleStart(i) \/ DIdleJoin(i) \/ DIdleFlag(i) \/ (task[DT(i)].h # "stop" /\ DIdleRecheck(i) /\ task'[DT(i)].pc # "run")
Spins == \E a \in 1..MaxAct : InlineSpin(a) \/ SpinWake(a)     \* 1000 zero-sleeps revisit the same two states

TNext ==
  \/ Logged /\ UNCHANGED <<Cfg, hlog>> /\ StateOK /\ l' = l + 1 /\ sil' = 0 /\ tid' = tid
  \/ l <= Len(Tr.lines) /\ sil < MaxSilent /\ Counted /\ UNCHANGED <<Cfg, hlog>> /\ sil' = sil + 1 /\ UNCHANGED <<tid, l>>
  \/ l <= Len(Tr.lines) /\ Spins /\ UNCHANGED <<Cfg, hlog>> /\ UNCHANGED <<tid, l, sil>>
TSpec == TInit /\ [][TNext]_<<vars, tvars>>

Accept == l = Len(Tr.lines) + 1 => TLCSet(2, TLCGet(2) \cup {tid})
Furthest == TLCSet(3, [TLCGet(3) EXCEPT ![tid] = IF l > @ THEN l ELSE @])
Book == Accept /\ Furthest
Post ==
  /\ PrintT(<<"IMPL-ACCEPTED", Cardinality(TLCGet(2)), "of", Len(Traces)>>)
  /\ \A t \in 1..Len(Traces) : t \in TLCGet(2) \/ PrintT(<<"IMPL-REJECT", Traces[t].id, "line", TLCGet(3)[t], ToJson(Traces[t].lines[TLCGet(3)[t]])>>)
=============================================================================
