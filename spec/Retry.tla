------------------------------- MODULE Retry -------------------------------
(***************************************************************************
 Specification of bubus.helpers.retry (properties C19 and C20; DESIGN.md 4.4, A.14).

 A scenario fixes what the environment does: for every caller of a decorated function its
 arrival time, the decorator parameters, the outcome of each attempt of the body (success /
 listed exception / unlisted exception after a duration; a duration longer than the
 per-attempt timeout is cut off) and the instant at which the caller task is cancelled, if
 ever.  Given a scenario the specification is a discrete-event system over an integer clock
 (milliseconds): callers contend for named semaphores (asyncio semantics: FIFO hand-off at
 release, newcomers queue behind waiters), run attempts, back off, finish.  Events that fall on
 the same instant may happen in either order - the only nondeterminism.

 Two uses:
   * TLC checks the invariants below on every reachable state of every scenario of a batch
     (scenario chosen in Init): C20's concurrency bound, slot conservation, strict/lax
     acquisition, C19's attempt bound and backoff arithmetic;
   * every terminal state prints the timeline (`log`) of its behaviour; the harness performs the
     same scenario on the real decorator under virtual time and its observed timeline must be
     one of the timelines of that scenario (exact replay, harness/retrycheck.py).
 ***************************************************************************)
EXTENDS Naturals, Integers, Sequences, FiniteSets, TLC, Json, IOUtils, SequencesExt

Scenarios == JsonDeserialize(IOEnv.SCENARIO_FILE)
VARIABLES sid, now, ph, att, holds, lax, dl, free, waitq, log, res
vars == <<sid, now, ph, att, holds, lax, dl, free, waitq, log, res>>

S == Scenarios[sid]
Callers == 1..Len(S.callers)
C(c) == S.callers[c]
Keys == {C(c).key : c \in Callers}
Limit == S.limit                      \* 0: no semaphore
SemTimeout(c) ==                      \* _calculate_semaphore_timeout
  IF S.semto < 0 THEN (IF C(c).timeout * (Limit - 1) > C(c).timeout THEN C(c).timeout * (Limit - 1) ELSE C(c).timeout)
  ELSE IF S.semto = 0 THEN 10 ELSE S.semto
Outcome(c, k) == IF k + 1 <= Len(C(c).attempts) THEN C(c).attempts[k + 1] ELSE [kind |-> "ok", dur |-> 1]
RECURSIVE Pow(_, _)
Pow(b, n) == IF n = 0 THEN 1 ELSE b * Pow(b, n - 1)
Backoff(c, k) == (C(c).wait * Pow(C(c).bfn, k)) \div Pow(C(c).bfd, k)            \* wait * backoff_factor ** k (exact by construction of the scenarios)
Retryable(c, kind) == kind = "listed" \/ ~C(c).restricted                        \* retry_on = None retries every Exception
CutOff(c, k) == Outcome(c, k).dur > C(c).timeout

Init ==
  /\ sid \in 1..Len(Scenarios)
  /\ now = 0
  /\ ph = [c \in 1..Len(Scenarios[sid].callers) |-> "idle"]
  /\ att = [c \in 1..Len(Scenarios[sid].callers) |-> 0]
  /\ holds = [c \in 1..Len(Scenarios[sid].callers) |-> FALSE]
  /\ lax = [c \in 1..Len(Scenarios[sid].callers) |-> FALSE]
  /\ dl = [c \in 1..Len(Scenarios[sid].callers) |-> Scenarios[sid].callers[c].arrive]
  /\ free = [k \in {Scenarios[sid].callers[c].key : c \in 1..Len(Scenarios[sid].callers)} |-> Scenarios[sid].limit]
  /\ waitq = [k \in {Scenarios[sid].callers[c].key : c \in 1..Len(Scenarios[sid].callers)} |-> <<>>]
  /\ log = <<>>
  /\ res = [c \in 1..Len(Scenarios[sid].callers) |-> "none"]

Log(c, ev, k, how) == log' = Append(log, [t |-> now, c |-> c, ev |-> ev, k |-> k, how |-> how])

StartAttempt(c, P, k) ==  \* body of attempt k begins now
  /\ ph' = [P EXCEPT ![c] = "body"]
  /\ att' = [att EXCEPT ![c] = k]
  /\ dl' = [dl EXCEPT ![c] = now + (IF CutOff(c, k) THEN C(c).timeout ELSE Outcome(c, k).dur)]
  /\ Log(c, "start", k, "")

\* release the caller's slot (if any): FIFO hand-off to the first waiter
ReleaseFx(c, H, F, W, P, D) ==
  IF ~H[c] THEN [H |-> H, F |-> F, W |-> W, P |-> P, D |-> D]
  ELSE LET key == C(c).key IN
       IF W[key] # <<>>
       THEN LET w == Head(W[key]) IN
            [H |-> [H EXCEPT ![c] = FALSE, ![w] = TRUE], F |-> F, W |-> [W EXCEPT ![key] = Tail(@)],
             P |-> [P EXCEPT ![w] = "granted"], D |-> [D EXCEPT ![w] = now]]
       ELSE [H |-> [H EXCEPT ![c] = FALSE], F |-> [F EXCEPT ![key] = @ + 1], W |-> W, P |-> P, D |-> D]

Finish(c, how, k) ==   \* the wrapper returns / raises; finally: release iff acquired
  LET r == ReleaseFx(c, holds, free, waitq, [ph EXCEPT ![c] = "done"], dl) IN
  /\ holds' = r.H /\ free' = r.F /\ waitq' = r.W /\ ph' = r.P /\ dl' = r.D
  /\ res' = [res EXCEPT ![c] = how]
  /\ Log(c, "final", k, how)
  /\ UNCHANGED <<att, lax>>

Arrive(c) ==
  /\ ph[c] = "idle" /\ dl[c] = now
  /\ IF Limit = 0
     THEN /\ StartAttempt(c, ph, 0) /\ UNCHANGED <<holds, lax, free, waitq, res>>
     ELSE LET key == C(c).key IN
          IF free[key] > 0 /\ waitq[key] = <<>>
          THEN /\ free' = [free EXCEPT ![key] = @ - 1] /\ holds' = [holds EXCEPT ![c] = TRUE]
               /\ StartAttempt(c, ph, 0) /\ UNCHANGED <<lax, waitq, res>>
          ELSE /\ waitq' = [waitq EXCEPT ![key] = Append(@, c)]
               /\ ph' = [ph EXCEPT ![c] = "semwait"] /\ dl' = [dl EXCEPT ![c] = now + SemTimeout(c)]
               /\ UNCHANGED <<att, holds, lax, free, log, res>>
  /\ UNCHANGED <<sid, now>>

Granted(c) ==   \* woken with the slot handed over at release time
  /\ ph[c] = "granted" /\ dl[c] = now
  /\ StartAttempt(c, ph, 0)
  /\ UNCHANGED <<sid, now, holds, lax, free, waitq, res>>

SemTimeoutFires(c) ==
  /\ ph[c] = "semwait" /\ dl[c] = now
  /\ LET key == C(c).key  W1 == [waitq EXCEPT ![key] = SelectSeq(@, LAMBDA x : x # c)] IN
     IF S.lax
     THEN /\ waitq' = W1 /\ lax' = [lax EXCEPT ![c] = TRUE]          \* proceeds without a slot (documented lax mode)
          /\ StartAttempt(c, ph, 0) /\ UNCHANGED <<holds, free, res>>
     ELSE /\ waitq' = W1 /\ ph' = [ph EXCEPT ![c] = "done"] /\ res' = [res EXCEPT ![c] = "sem_timeout"]
          /\ Log(c, "final", -1, "sem_timeout")                      \* TimeoutError, the body never runs
          /\ UNCHANGED <<att, holds, lax, free, dl>>
  /\ UNCHANGED <<sid, now>>

EndAttempt(c) ==
  /\ ph[c] = "body" /\ dl[c] = now
  /\ LET k == att[c]  o == Outcome(c, k)
         kind == IF CutOff(c, k) THEN "cutoff" ELSE o.kind IN
     IF kind = "ok"
     THEN /\ log' = log \o <<[t |-> now, c |-> c, ev |-> "end", k |-> k, how |-> "ok"], [t |-> now, c |-> c, ev |-> "final", k |-> k, how |-> "ret"]>>
          /\ LET r == ReleaseFx(c, holds, free, waitq, [ph EXCEPT ![c] = "done"], dl) IN
             holds' = r.H /\ free' = r.F /\ waitq' = r.W /\ ph' = r.P /\ dl' = r.D
          /\ res' = [res EXCEPT ![c] = "ret"] /\ UNCHANGED <<att, lax>>
     ELSE LET endline == [t |-> now, c |-> c, ev |-> "end", k |-> k, how |-> IF kind = "cutoff" THEN "cancelled" ELSE "exc"]
              retry == Retryable(c, kind) /\ k < C(c).retries IN
          IF retry
          THEN /\ log' = Append(log, endline)
               /\ ph' = [ph EXCEPT ![c] = "backoff"] /\ dl' = [dl EXCEPT ![c] = now + Backoff(c, k)]
               /\ UNCHANGED <<att, holds, lax, free, waitq, res>>
          ELSE /\ log' = log \o <<endline, [t |-> now, c |-> c, ev |-> "final", k |-> k, how |-> IF kind = "cutoff" THEN "raise_timeout" ELSE "raise"]>>
               /\ LET r == ReleaseFx(c, holds, free, waitq, [ph EXCEPT ![c] = "done"], dl) IN
                  holds' = r.H /\ free' = r.F /\ waitq' = r.W /\ ph' = r.P /\ dl' = r.D
               /\ res' = [res EXCEPT ![c] = "raise"] /\ UNCHANGED <<att, lax>>
  /\ UNCHANGED <<sid, now>>

BackoffEnds(c) ==
  /\ ph[c] = "backoff" /\ dl[c] = now
  /\ StartAttempt(c, ph, att[c] + 1)
  /\ UNCHANGED <<sid, now, holds, lax, free, waitq, res>>

\* the caller task is cancelled: CancelledError passes through every layer, nothing is retried
Cancel(c) ==
  /\ C(c).cancel_at = now /\ ph[c] \in {"semwait", "granted", "body", "backoff"}
  /\ LET key == C(c).key
         W1 == IF ph[c] = "semwait" THEN [waitq EXCEPT ![key] = SelectSeq(@, LAMBDA x : x # c)] ELSE waitq
         body == ph[c] = "body"
         r == ReleaseFx(c, holds, free, W1, [ph EXCEPT ![c] = "done"], dl) IN
     /\ holds' = r.H /\ free' = r.F /\ waitq' = r.W /\ ph' = r.P /\ dl' = r.D
     /\ log' = log \o (IF body THEN <<[t |-> now, c |-> c, ev |-> "end", k |-> att[c], how |-> "cancelled"]>> ELSE <<>>)
                   \o <<[t |-> now, c |-> c, ev |-> "final", k |-> IF body THEN att[c] ELSE -1, how |-> "cancelled"]>>
     /\ res' = [res EXCEPT ![c] = "cancelled"]
  /\ UNCHANGED <<sid, now, att, lax>>

Busy == \E c \in Callers : (ph[c] # "done" /\ dl[c] = now) \/ (C(c).cancel_at = now /\ ph[c] \in {"semwait", "granted", "body", "backoff"})
Pending == {dl[c] : c \in {x \in Callers : ph[x] # "done"}} \cup {C(c).cancel_at : c \in {x \in Callers : ph[x] # "done" /\ C(x).cancel_at > now}}
Tick ==
  /\ ~Busy /\ \E t \in Pending : t > now
  /\ now' = CHOOSE t \in Pending : t > now /\ \A u \in Pending : u > now => t <= u
  /\ UNCHANGED <<sid, ph, att, holds, lax, dl, free, waitq, log, res>>

Next ==
  \/ \E c \in Callers : Arrive(c) \/ Granted(c) \/ SemTimeoutFires(c) \/ EndAttempt(c) \/ BackoffEnds(c) \/ Cancel(c)
  \/ Tick
Spec == Init /\ [][Next]_vars

\* ---------------------------------------------------------------------------
\* properties
\* ---------------------------------------------------------------------------
InBody(k) == {c \in Callers : C(c).key = k /\ ph[c] = "body"}
\* C20: at most L bodies per key, exceeded only by callers that passed a lax acquisition timeout
Bounded == Limit > 0 => \A k \in Keys : Cardinality({c \in InBody(k) : ~lax[c]}) <= Limit
\* C20: slots are conserved: free + held = L, every holder is between acquisition and its final step
Conserved == Limit > 0 => \A k \in Keys : free[k] + Cardinality({c \in Callers : C(c).key = k /\ holds[c]}) = Limit /\ free[k] >= 0
HoldersAlive == \A c \in Callers : holds[c] => ph[c] \in {"granted", "body", "backoff"}
\* C20: a strict acquisition timeout never runs the body; a lax one does
StrictNoBody == \A c \in Callers : res[c] = "sem_timeout" => ~S.lax /\ ~\E i \in DOMAIN log : log[i].c = c /\ log[i].ev = "start"
\* C19: attempt bound
AttemptBound == \A c \in Callers : att[c] <= C(c).retries
\* C19: the wait before attempt k+1 is exactly wait * backoff_factor^k, and no attempt follows a success, an unretryable failure or a cancellation
Starts(c) == SelectSeq(log, LAMBDA l : l.c = c /\ l.ev = "start")
Ends(c) == SelectSeq(log, LAMBDA l : l.c = c /\ l.ev = "end")
BackoffExact == \A c \in Callers : \A i \in 2..Len(Starts(c)) :
                  /\ i - 1 <= Len(Ends(c)) /\ Starts(c)[i].t - Ends(c)[i - 1].t = Backoff(c, i - 2)
                  /\ Ends(c)[i - 1].how # "ok"
                  /\ Ends(c)[i - 1].t - Starts(c)[i - 1].t <= C(c).timeout
Terminal == \A c \in Callers : ph[c] = "done"
\* at quiescence every slot is back: a probe of L fresh callers enters at once
AllReleased == Terminal => (Limit > 0 => \A k \in Keys : free[k] = Limit /\ waitq[k] = <<>>)
Emit == Terminal => PrintT(<<"CASE", ToJson([id |-> S.id, log |-> log])>>)
=============================================================================
