SPECIFICATION Spec
CONSTANTS
  Cfg0 <- MCfg
  Types <- MTypes
  MaxEv = 2
  MaxAct = 2
  Budget = 1
  NDrv = 2
  DrvBudget = 2
  MaxDepth = 1
  QueueCap = 0
  HardLimit = 0
  WithErrors = TRUE
  WithIdle = TRUE
  WithSleep = FALSE
  WithExpect = FALSE
  MaxExpect = 0
  ExpFilters = {}
  WithWalFaults = FALSE
  WithStop = FALSE
  TimeoutTypes = {}
  KeepLog = TRUE
INVARIANT TypeOK
INVARIANT LockOK
INVARIANT NoUnexplainedWitness
INVARIANT TerminalOK
INVARIANT EmitBehaviour
CHECK_DEADLOCK FALSE
