----------------------------- MODULE TraceObs -----------------------------
(***************************************************************************
 Code -> spec, property side (DESIGN.md 5.4): replays the observation lines recorded
 from executions of the real bubus through the monitor of BubusProps and reports, per
 trace, every witness of a falsified property clause, classified against the recorded
 findings.  The monitor is total (it never blocks on an unexpected line), so one
 violation never hides the rest of a trace.  Batch mode: one TLC run validates
 thousands of traces (`tid` chosen in Init, -workers 1).
 ***************************************************************************)
EXTENDS KnownFindings, Json, IOUtils, TLCExt
Traces == JsonDeserialize(IOEnv.TRACE_FILE)
VARIABLES tid, l, o
tvars == <<tid, l, o>>

TInit == /\ tid \in 1..Len(Traces) /\ l = 1 /\ o = ObsInit(Traces[tid].cfg)
TNext == /\ l <= Len(Traces[tid].lines)
         /\ o' = Step(Traces[tid].cfg, o, Traces[tid].lines[l])
         /\ l' = l + 1 /\ UNCHANGED tid
TSpec == TInit /\ [][TNext]_tvars

Report ==
  l = Len(Traces[tid].lines) + 1 =>
    PrintT(<<"TRACE", ToJson([id |-> Traces[tid].id,
                              wit |-> {[c |-> w.c, e |-> w.e, b |-> w.b, h |-> w.h, a |-> w.a, k |-> w.k,
                                        kf |-> Classify(Traces[tid].cfg, o, w)] : w \in o.wit},
                              cnt |-> o.cnt])>>)
=============================================================================
