------------------------------ MODULE MC_late ------------------------------
(* Run-time registration: one bus with a typed handler registered from the start, a wildcard and a typed handler registered by a driver
   at some point (bus.on), and expect() temporaries sharing the same registration order. *)
EXTENDS Bubus
MCfg == [buses |-> <<[name |-> "b1", parallel |-> FALSE, maxhist |-> 0]>>,
         handlers |-> <<[id |-> "h_t", bus |-> "b1", pat |-> "T", kind |-> "async", to |-> ""],
                        [id |-> "late_w", bus |-> "b1", pat |-> "*", kind |-> "sync", to |-> "", late |-> TRUE],
                        [id |-> "late_t", bus |-> "b1", pat |-> "T", kind |-> "async", to |-> "", late |-> TRUE]>>]
MTypes == <<"T">>
=============================================================================
