------------------------------ MODULE MC_par ------------------------------
(* One parallel_handlers bus with two scenario handlers (one async, one sync) and one serial bus. *)
EXTENDS Bubus
MCfg == [buses |-> <<[name |-> "b1", parallel |-> TRUE, maxhist |-> 0], [name |-> "b2", parallel |-> FALSE, maxhist |-> 0]>>,
         handlers |-> <<[id |-> "p1", bus |-> "b1", pat |-> "*", kind |-> "async", to |-> ""],
                        [id |-> "p2", bus |-> "b1", pat |-> "*", kind |-> "async", to |-> ""],
                        [id |-> "w_b2", bus |-> "b2", pat |-> "*", kind |-> "sync", to |-> ""]>>]
MTypes == <<"T">>
=============================================================================
