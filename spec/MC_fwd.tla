------------------------------ MODULE MC_fwd ------------------------------
(* All forwarding topologies over three buses (self-loops, cycles, several forwards per bus): 2^9 graphs chosen in Init.
   One wildcard scenario handler per bus; registration order alternates (handler first / forwards first). *)
EXTENDS Bubus
BN == <<"b1", "b2", "b3">>
Pairs == {<<i, j>> : i \in 1..3, j \in 1..3}
Puppet(i) == [id |-> "w_" \o BN[i], bus |-> BN[i], pat |-> "*", kind |-> "async", to |-> ""]
Fwd(p) == [id |-> "f_" \o BN[p[1]] \o "_" \o BN[p[2]], bus |-> BN[p[1]], pat |-> "*", kind |-> "fwd", to |-> BN[p[2]]]
FwdsOf(E, i) == LET js == SelectSeq(<<1, 2, 3>>, LAMBDA j : <<i, j>> \in E) IN [k \in 1..Len(js) |-> Fwd(<<i, js[k]>>)]
HandlersFor(E) == (<<Puppet(1)>> \o FwdsOf(E, 1)) \o (FwdsOf(E, 2) \o <<Puppet(2)>>) \o (<<Puppet(3)>> \o FwdsOf(E, 3))
MkCfg(E) == [buses |-> [i \in 1..3 |-> [name |-> BN[i], parallel |-> FALSE, maxhist |-> 0]], handlers |-> HandlersFor(E)]
CfgSet == {MkCfg(E) : E \in SUBSET Pairs}
InitAll == \E c \in CfgSet : InitWith(c)
SpecAll == InitAll /\ [][Next]_vars
FairSpecAll == SpecAll /\ SF_vars(Progress) /\ WF_vars(SpinStep /\ UNCHANGED <<Cfg, hlog>>)
MTypes == <<"T">>
=============================================================================
