SPECIFICATION FairSpec
CONSTANTS
  Cfg0 <- MCfg
  Types <- MTypes
  MaxEv = 2
  MaxAct = 3
  Budget = 1
  NDrv = 2
  DrvBudget = 2
  MaxDepth = 2
  QueueCap = 0
  HardLimit = 0
  WithErrors = FALSE
  WithIdle = TRUE
  WithSleep = FALSE
  WithExpect = FALSE
  MaxExpect = 0
  ExpFilters = {}
  WithWalFaults = FALSE
  WithStop = TRUE
  TimeoutTypes = {}
  KeepLog = FALSE
INVARIANT TypeOK
INVARIANT LockOK
INVARIANT NoUnexplainedWitness
INVARIANT TerminalOK
PROPERTY Terminates
CHECK_DEADLOCK FALSE
