----------------------------- MODULE MC_redisp -----------------------------
(* Re-dispatch of existing events (same object): two serial buses; b1 has two scenario handlers for every event, b2 one; handlers may
   dispatch their own event again (to either bus) and drivers may dispatch a root again. *)
EXTENDS Bubus
MCfg == [redispatch |-> TRUE,
         buses |-> <<[name |-> "b1", parallel |-> FALSE, maxhist |-> 0], [name |-> "b2", parallel |-> FALSE, maxhist |-> 0]>>,
         handlers |-> <<[id |-> "h1", bus |-> "b1", pat |-> "*", kind |-> "async", to |-> ""],
                        [id |-> "h2", bus |-> "b1", pat |-> "*", kind |-> "async", to |-> ""],
                        [id |-> "w_b2", bus |-> "b2", pat |-> "*", kind |-> "async", to |-> ""]>>]
MTypes == <<"T">>
=============================================================================
