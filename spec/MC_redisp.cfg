SPECIFICATION Spec
CONSTANTS
  Cfg0 <- MCfg
  Types <- MTypes
  MaxEv = 2
  MaxAct = 6
  Budget = 1
  NDrv = 1
  DrvBudget = 2
  MaxDepth = 2
  QueueCap = 0
  HardLimit = 0
  WithErrors = FALSE
  WithIdle = FALSE
  WithSleep = FALSE
  WithExpect = FALSE
  MaxExpect = 0
  ExpFilters = {}
  WithWalFaults = FALSE
  WithStop = FALSE
  TimeoutTypes = {}
  KeepLog = FALSE
INVARIANT TypeOK
INVARIANT LockOK
INVARIANT NoUnexplainedWitness
INVARIANT TerminalOK
CHECK_DEADLOCK FALSE
