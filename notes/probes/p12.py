import sys, asyncio, logging, warnings
warnings.simplefilter('ignore')
sys.path.insert(0, __import__('os').path.dirname(__import__('os').path.abspath(__file__)))
from vloop import run, DeadlockError
from bubus import EventBus, BaseEvent
from bubus.helpers import retry
logging.getLogger('bubus').setLevel(logging.CRITICAL)
logging.getLogger('bubus.helpers').setLevel(logging.CRITICAL)
class P(BaseEvent): pass
class C(BaseEvent):
    tag:str=''
log=[]
async def par():
    b=EventBus(name='pb', parallel_handlers=True)
    async def ha(e):
        await asyncio.sleep(1); b.dispatch(C(tag='a')); await asyncio.sleep(1); b.dispatch(C(tag='a2'))
    async def hb(e):
        b.dispatch(C(tag='b')); await asyncio.sleep(1.5); b.dispatch(C(tag='b2'))
    b.on(P,ha); b.on(P,hb)
    p=await b.dispatch(P())
    await b.wait_until_idle()
    print('parallel attribution', [(r.handler_name.split('.')[-1], [c.tag for c in r.event_children]) for r in p.event_results.values()])
    await b.stop()
run(par())
async def twice():
    b=EventBus(name='tw')
    n=[]
    async def h(e): n.append(1); await asyncio.sleep(1)
    b.on(P,h)
    p=P(); b.dispatch(p); b.dispatch(p)
    await p; await b.wait_until_idle()
    print('same event twice: runs', len(n), 'path', p.event_path, 'hist', len(b.event_history))
    b.dispatch(p); await b.wait_until_idle(); print('third time after completion', len(n))
    await b.stop()
run(twice())
async def exp():
    b=EventBus(name='ex')
    async def h(e): return 'ok'
    b.on(C,h)
    def bad(e): raise ValueError('pred')
    t=asyncio.create_task(b.expect(C, include=bad, timeout=5))
    await asyncio.sleep(0)
    c=await b.dispatch(C())
    print('expect raising predicate: results', [(r.handler_name[-30:], r.status, type(r.error).__name__) for r in c.event_results.values()], 'handlers', len(b.handlers['C']))
    try: await t
    except BaseException as ex: print('expect outcome', type(ex).__name__, 'handlers after', len(b.handlers['C']))
    t=asyncio.create_task(b.expect(C, timeout=5)); await asyncio.sleep(0); t.cancel()
    try: await t
    except BaseException as ex: print('expect cancel', type(ex).__name__, 'handlers after', len(b.handlers['C']))
    await b.stop()
run(exp())
