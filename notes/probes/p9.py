import sys, asyncio, logging, warnings
from typing import Optional, Union, Literal
warnings.simplefilter('ignore')
sys.path.insert(0, __import__('os').path.dirname(__import__('os').path.abspath(__file__)))
from vloop import run, DeadlockError
from bubus import EventBus, BaseEvent
from bubus.helpers import retry
logging.getLogger('bubus').setLevel(logging.CRITICAL)
class P(BaseEvent): pass
async def f9():
    b1=EventBus(name='b1'); b2=EventBus(name='b2')
    seen=[]
    async def after(e): seen.append(('after-forward handler on b1 sees', e.event_bus.name))
    async def before(e): seen.append(('before-forward handler on b1 sees', e.event_bus.name))
    b1.on(P,before); b1.on('*', b2.dispatch); b1.on(P, after)
    await b1.dispatch(P()); await b1.wait_until_idle(); await b2.wait_until_idle()
    print(seen)
    await b1.stop(); await b2.stop()
run(f9())
async def f12():
    b=EventBus(name='b12')
    for T,val in [(int|None,3),(Optional[str],'x'),(Union[int,str],3),(Literal['a','b'],'a'),(int,3),(list[int],[1]), (int|None,'zz')]:
        class E(BaseEvent):
            pass
        async def h(e): return val
        b.handlers.clear(); b.on('E',h)
        try:
            ev=await b.dispatch(E(event_result_type=T))
            print(T, val, [(r.status, r.result, type(r.error).__name__) for r in ev.event_results.values()])
        except BaseException as ex:
            print(T,val,'EXC',repr(ex)[:200])
    await b.stop()
run(f12())
