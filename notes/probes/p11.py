import sys, asyncio, logging, warnings
warnings.simplefilter('ignore')
sys.path.insert(0, __import__('os').path.dirname(__import__('os').path.abspath(__file__)))
from vloop import run, DeadlockError
from bubus import EventBus, BaseEvent
logging.getLogger('bubus').setLevel(logging.CRITICAL)
class P(BaseEvent): pass
class X(BaseEvent): pass
class Y(BaseEvent): pass
class C(BaseEvent): pass
log=[]
async def inv():
    b1=EventBus(name='b1'); b2=EventBus(name='b2')
    await b2.wait_until_idle()
    async def hp(e):
        b2.dispatch(X())
        await asyncio.sleep(0)   # RL2 takes X, blocks on lock
        await asyncio.sleep(0); await asyncio.sleep(0); await asyncio.sleep(0)
        y=b2.dispatch(Y())
        await y
        log.append('hp-done')
    async def h2(e): log.append(e.event_type)
    b1.on(P,hp); b2.on('*',h2)
    await b1.dispatch(P())
    await b1.wait_until_idle(); await b2.wait_until_idle()
    print('C02 inversion probe:', log)
    await b1.stop(); await b2.stop()
run(inv())
log.clear()
async def n1():
    b1=EventBus(name='c1'); b2=EventBus(name='c2')
    async def slow(e): 
        log.append(('c2 run', e.event_type)); await asyncio.sleep(1)
    b2.on('*', slow)
    b2.dispatch(X()); b2.dispatch(Y())
    await asyncio.sleep(0.5)
    await b2.stop()
    log.append(('stopped c2', asyncio.get_event_loop().time(), b2.event_queue.qsize()))
    async def hp(e):
        c=b1.dispatch(C()); await c
    async def hc(e): log.append('C')
    b1.on(P,hp); b1.on(C,hc)
    await b1.dispatch(P())
    print('N1 probe:', log)
    await b1.stop()
run(n1())
