import sys, asyncio, logging
sys.path.insert(0, __import__('os').path.dirname(__import__('os').path.abspath(__file__)))
from vloop import run, DeadlockError
from bubus import EventBus, BaseEvent
logging.getLogger('bubus').setLevel(logging.CRITICAL)
class P(BaseEvent): pass
class C(BaseEvent): pass
log=[]
async def main(nyield):
    b1=EventBus(name='b1'); b2=EventBus(name='b2')
    async def hp(e):
        c=b2.dispatch(C())
        for _ in range(nyield): await asyncio.sleep(0)
        r=await c
        log.append(('await-end', c.event_status, c.event_completed_signal.is_set(), {k[-4:]:v.status for k,v in c.event_results.items()}))
    async def hc(e): log.append('C-run')
    b1.on(P,hp); b2.on(C,hc)
    # make b2 running beforehand
    await b2.wait_until_idle()
    p=b1.dispatch(P())
    await p
    print(nyield, log, 'P status', p.event_status)
    await b1.wait_until_idle(); await b2.wait_until_idle()
    print('after idle', log)
    await b1.stop(); await b2.stop()
for n in (0,1,2,3,4):
    log.clear()
    try: run(main(n))
    except DeadlockError as e: print(n,'DEADLOCK',e, log)
