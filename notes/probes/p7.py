import asyncio, logging, warnings
warnings.simplefilter('ignore')
from bubus import EventBus, BaseEvent
logging.getLogger('bubus').setLevel(logging.CRITICAL)
class P(BaseEvent): pass
async def main():
    b1=EventBus(name='b1')
    async def h(e): return 1
    b1.on(P,h)
    await b1.dispatch(P())
    print('done main')
asyncio.run(main())
print('exited')
