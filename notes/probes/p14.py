"""brute-force C07 over all forwarding graphs on 3 buses (incl. self loops), each entry bus"""
import sys, asyncio, logging, warnings, itertools, gc
warnings.simplefilter('ignore')
sys.path.insert(0, __import__('os').path.dirname(__import__('os').path.abspath(__file__)))
from vloop import run, DeadlockError
import bubus.service as S
from bubus import EventBus, BaseEvent
logging.getLogger('bubus').setLevel(logging.CRITICAL)
class P(BaseEvent): pass
N=3
pairs=[(i,j) for i in range(N) for j in range(N)]
def reach(edges, s):
    seen={s}; order=[s]; fr=[s]
    while fr:
        x=fr.pop(0)
        for (a,b) in edges:
            if a==x and b not in seen: seen.add(b); fr.append(b)
    return seen
bad=[]; n=0
async def one(edges, entry, slow):
    buses=[EventBus(name=f'b{i}') for i in range(N)]
    ent=[]
    for i,b in enumerate(buses):
        async def h(e, i=i):
            ent.append(i)
            if slow: await asyncio.sleep(1+i)
            return i
        h.__name__=f'h{i}'
        b.on('*', h)
    for (a,b) in edges: buses[a].on('*', buses[b].dispatch)
    p=buses[entry].dispatch(P())
    await p
    for _ in range(3):
        for b in buses: await b.wait_until_idle()
    exp=reach(edges, entry)
    ok = sorted(ent)==sorted(exp) and sorted(p.event_path)==sorted(f'b{i}' for i in exp) and len(p.event_path)==len(set(p.event_path))
    # arrival order: path order must equal order of first entry? (entry order = processing order; path = enqueue order) just record
    if not ok: bad.append((edges, entry, slow, ent, p.event_path))
    for b in buses: await b.stop(clear=True)
for k in range(2**len(pairs)):
    edges=[pairs[i] for i in range(len(pairs)) if k>>i&1]
    for entry in range(N):
        for slow in (False,True):
            S.EventBus.all_instances.clear(); S._global_eventbus_lock=None
            try: run(one(edges, entry, slow), horizon=1e5)
            except DeadlockError as ex: bad.append((edges,entry,slow,'DEADLOCK'))
            n+=1
print('executions', n, 'bad', len(bad)); print(bad[:5])
