import sys, asyncio, logging, warnings
warnings.simplefilter('ignore')
sys.path.insert(0, __import__('os').path.dirname(__import__('os').path.abspath(__file__)))
from vloop import run, DeadlockError
from bubus import EventBus, BaseEvent
logging.getLogger('bubus').setLevel(logging.CRITICAL)
class P(BaseEvent): pass
async def main():
    b1=EventBus(name='b1'); b2=EventBus(name='b2')
    async def h2(e):
        await asyncio.sleep(1)
        return 'h2'
    b1.on('*', b2.dispatch); b2.on(P,h2)
    p=b1.dispatch(P())
    await p
    print('await returned', p.event_status, [(r.eventbus_name[:2], r.status) for r in p.event_results.values()], 'parent', p.event_parent_id==p.event_id, p.event_path)
    await asyncio.sleep(0.5)
    print('later', p.event_status, [(r.eventbus_name[:2], r.status) for r in p.event_results.values()])
    await asyncio.sleep(1)
    print('later2', p.event_status, [(r.eventbus_name[:2], r.status) for r in p.event_results.values()])
    await b1.stop(); await b2.stop()
run(main())
