import sys, asyncio, logging, warnings
warnings.simplefilter('ignore')
sys.path.insert(0, __import__('os').path.dirname(__import__('os').path.abspath(__file__)))
from vloop import run, DeadlockError
from bubus import EventBus, BaseEvent
from bubus.helpers import retry
logging.getLogger('bubus').setLevel(logging.CRITICAL)
class P(BaseEvent): pass
async def f9():
    b1=EventBus(name='b1'); b2=EventBus(name='b2')
    seen=[]
    async def after(e): seen.append(('after-forward handler on b1 sees', e.event_bus.name))
    b1.on('*', b2.dispatch); b1.on('*', after)
    await b1.dispatch(P()); await b1.wait_until_idle(); await b2.wait_until_idle()
    print(seen)
    await b1.stop(); await b2.stop()
run(f9())

# F13
calls=[]
@retry(retries=0, timeout=50, semaphore_limit=1, semaphore_name='f13', semaphore_timeout=100, semaphore_lax=False)
async def work(i):
    calls.append(('in',i)); await asyncio.sleep(1); calls.append(('out',i)); return i
async def loopmain():
    return await asyncio.gather(work(1), work(2), return_exceptions=True)
print(run(loopmain()))
print(run(loopmain()))
