import sys, asyncio, logging, warnings
warnings.simplefilter('ignore')
sys.path.insert(0, __import__('os').path.dirname(__import__('os').path.abspath(__file__)))
from vloop import run, DeadlockError
from bubus import EventBus, BaseEvent
logging.getLogger('bubus').setLevel(logging.CRITICAL)
class P(BaseEvent): pass
class C(BaseEvent): pass
log=[]
async def main(n):
    b1=EventBus(name='b1', max_history_size=1000)
    rej=[]
    async def h(e):
        for i in range(n):
            c=C()
            try: b1.dispatch(c)
            except BaseException as ex: rej.append((i,type(ex).__name__, c.event_id in b1.event_history, c in e.event_children, c.event_path, c.event_parent_id==e.event_id))
    ran=[]
    async def hc(e): ran.append(e.event_id)
    b1.on(P,h); b1.on(C,hc)
    p=b1.dispatch(P())
    try:
        await asyncio.wait_for(p, 500)
        print(n,'parent completed', len(rej), rej[:2], 'ran',len(ran))
    except TimeoutError:
        print(n,'parent HANG', len(rej), rej[:2], 'ran', len(ran), p.event_status, len(p.event_children))
    await b1.stop()
for n in (10,49,50,51,60,120):
    try: run(main(n), horizon=5000)
    except DeadlockError as e: print(n,'DEADLOCK',e)
