"""G3: using a bus after stop(): dispatch raises QueueShutDown and leaves a run loop that spins without ever sleeping"""
import sys, asyncio, logging, warnings
warnings.simplefilter('ignore')
sys.path.insert(0, __import__('os').path.dirname(__import__('os').path.abspath(__file__)))
from vloop import VLoop, DeadlockError
from bubus import EventBus, BaseEvent
logging.getLogger('bubus').setLevel(logging.CRITICAL)
class P(BaseEvent): pass
IT=[0]
class L(VLoop):
    def _run_once(self):
        IT[0]+=1
        if IT[0]>5000: raise DeadlockError('livelock: 5000 iterations')
        super()._run_once()
async def main():
    b=EventBus(name='g3')
    async def h(e): pass
    b.on(P,h)
    await b.dispatch(P()); await b.stop()
    it0=IT[0]
    try: b.dispatch(P())
    except BaseException as ex: print('dispatch after stop ->', type(ex).__name__, 'running', b._is_running)
    t0=asyncio.get_event_loop().time()
    await asyncio.sleep(1)
    print('slept 1s virtual; iterations used', IT[0]-it0, 'time', asyncio.get_event_loop().time()-t0)
loop=L(); asyncio.set_event_loop(loop)
try: loop.run_until_complete(main())
except DeadlockError as e: print('DEADLOCK', e, 'virtual time', loop.time())
