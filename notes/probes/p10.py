import sys, asyncio, logging, warnings, functools
warnings.simplefilter('ignore')
sys.path.insert(0, __import__('os').path.dirname(__import__('os').path.abspath(__file__)))
from vloop import VLoop, DeadlockError
import bubus.service as S, bubus.models as M
from bubus import EventBus, BaseEvent
logging.getLogger('bubus').setLevel(logging.CRITICAL)
IT=[0]
class L(VLoop):
    def _run_once(self):
        IT[0]+=1
        super()._run_once()
def T(): 
    t=asyncio.current_task()
    return (t.get_name()[:28] if t else None)
def log(*a): print(f'it={IT[0]:3d} t={asyncio.get_event_loop().time():5.2f} [{T()}]', *a)
names={}
def nm(e): return names.setdefault(e.event_id, f'{e.event_type}{len(names)}')
def wrap_sync(cls, name, fmt):
    orig=getattr(cls,name)
    @functools.wraps(orig)
    def w(self,*a,**k):
        try:
            r=orig(self,*a,**k)
        except BaseException as ex:
            log(name,'RAISE',fmt(self,a,None),type(ex).__name__); raise
        log(name,fmt(self,a,r)); return r
    setattr(cls,name,w)
def wrap_async(cls, name, fmt):
    orig=getattr(cls,name)
    @functools.wraps(orig)
    async def w(self,*a,**k):
        log(name,'BEGIN',fmt(self,a,None))
        try:
            r=await orig(self,*a,**k)
        except BaseException as ex:
            log(name,'RAISE',fmt(self,a,None),type(ex).__name__); raise
        log(name,'END',fmt(self,a,r)); return r
    setattr(cls,name,w)
busname={}
wrap_sync(S.CleanShutdownQueue,'get_nowait',lambda s,a,r: (busname.get(id(s)), r and nm(r)))
wrap_sync(S.CleanShutdownQueue,'task_done',lambda s,a,r: (busname.get(id(s)),))
wrap_sync(S.EventBus,'dispatch',lambda s,a,r: (s.name, nm(a[0])))
wrap_async(S.EventBus,'_get_next_event',lambda s,a,r: (s.name, r and nm(r)))
wrap_async(S.EventBus,'process_event',lambda s,a,r: (s.name, nm(a[0])))
wrap_async(S.EventBus,'execute_handler',lambda s,a,r: (s.name, nm(a[0]), a[1].__name__))
wrap_async(S.ReentrantLock,'__aenter__',lambda s,a,r: ('depth',s._depth))
wrap_async(S.ReentrantLock,'__aexit__',lambda s,a,r: ('depth',s._depth))
wrap_sync(M.BaseEvent,'event_mark_complete_if_all_handlers_completed',lambda s,a,r:(nm(s), s.event_completed_signal.is_set()))
class P(BaseEvent): pass
class C(BaseEvent): pass
async def main():
    b1=EventBus(name='b1'); b2=EventBus(name='b2')
    async def hp(e):
        log('HP enter')
        c=b2.dispatch(C())
        log('HP await'); await c; log('HP awaited')
    def hc(e): log('HC run (sync)')
    b1.on(P,hp); b2.on(C,hc)
    p=b1.dispatch(P()); busname[id(b1.event_queue)]='b1'
    log('main await p')
    await p
    log('main got p')
    await b1.wait_until_idle(); log('idle1'); await b2.wait_until_idle(); log('idle2')
    await b1.stop(); await b2.stop(); log('stopped')
loop=L(); asyncio.set_event_loop(loop); loop.run_until_complete(main())
