import asyncio, selectors, heapq
class VSelector(selectors.SelectSelector.__bases__[0] if False else object):
    pass
class VLoop(asyncio.SelectorEventLoop):
    """virtual-time loop: time jumps to the next timer when nothing is ready"""
    def __init__(self):
        super().__init__()
        self._vt = 0.0
        self.horizon = 1e6
        self._frozen = 0          # consecutive iterations without virtual-time progress
        self.max_frozen = 20000   # livelock guard (a task that never sleeps freezes the virtual clock)
        real_select = self._selector.select
        def select(timeout=None):
            if timeout is None:
                # nothing scheduled at all: deadlock
                raise DeadlockError('no runnable task and no timer')
            if timeout > 0:
                self._frozen = 0
                self._vt += timeout
                if self._vt > self.horizon:
                    raise DeadlockError('horizon')
            self._frozen += 1
            if self._frozen > self.max_frozen:
                raise DeadlockError('livelock: %d iterations without time progress' % self._frozen)
            return real_select(0)
        self._selector.select = select
    def time(self):
        return self._vt
class DeadlockError(BaseException):
    pass
def run(coro, horizon=1e5):
    loop = VLoop(); loop.horizon = horizon
    asyncio.set_event_loop(loop)
    try:
        return loop.run_until_complete(coro)
    finally:
        try:
            loop.close()
        except BaseException as e:
            print('close err', repr(e))
