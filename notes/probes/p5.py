import sys, asyncio, logging, warnings
warnings.simplefilter('ignore')
sys.path.insert(0, __import__('os').path.dirname(__import__('os').path.abspath(__file__)))
from vloop import run, DeadlockError
from bubus import EventBus, BaseEvent
logging.getLogger('bubus').setLevel(logging.CRITICAL)
class P(BaseEvent):
    event_timeout: float|None = 5
class C(BaseEvent):
    event_timeout: float|None = 100
log=[]
async def main(cdur):
    b1=EventBus(name='b1')
    async def hp(e):
        c=b1.dispatch(C())
        log.append('p-await')
        try:
            await c
        finally:
            log.append(('p-after', asyncio.get_event_loop().time()))
    async def hc(e):
        log.append('c-start')
        try:
            await asyncio.sleep(cdur)
            log.append(('c-resumed', asyncio.get_event_loop().time()))
        except BaseException as ex:
            log.append(('c-exc', type(ex).__name__, asyncio.get_event_loop().time()))
            raise
    b1.on(P,hp); b1.on(C,hc)
    p=b1.dispatch(P())
    await p
    c=p.event_children[0]
    print(cdur,'await p returned t=',asyncio.get_event_loop().time(), p.event_status, [(r.status,type(r.error).__name__) for r in p.event_results.values()],
          'child', c.event_status, c.event_completed_signal.is_set(), [(r.status,type(r.error).__name__) for r in c.event_results.values()])
    print(log)
    try:
        await asyncio.wait_for(b1.wait_until_idle(), 1000)
        print('idle ok', asyncio.get_event_loop().time(), 'unfinished', b1.event_queue._unfinished_tasks)
    except TimeoutError:
        print('IDLE HANG', 'unfinished', b1.event_queue._unfinished_tasks, c.event_status, c.event_completed_signal.is_set())
    await b1.stop()
for d in (1,10):
    log.clear()
    try: run(main(d), horizon=50000)
    except DeadlockError as e: print(d,'DEADLOCK',e, log)
