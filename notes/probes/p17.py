"""battery 2: WAL order under nesting/forwarding + I/O fault; retry semaphore cancel/lax; dispatch w/o loop"""
import sys, os, asyncio, logging, warnings, json, tempfile, shutil
warnings.simplefilter('ignore')
sys.path.insert(0, os.path.dirname(os.path.abspath(__file__)))
import bubus.service as S, bubus.helpers as H
from bubus import EventBus, BaseEvent
from bubus.helpers import retry
logging.getLogger('bubus').setLevel(logging.CRITICAL); logging.getLogger('bubus.helpers').setLevel(logging.CRITICAL)
H.PSUTIL_AVAILABLE=False
def fresh(): S.EventBus.all_instances.clear(); S._global_eventbus_lock=None
class A(BaseEvent):
    x:int=0
class B(BaseEvent): pass
d=tempfile.mkdtemp()
async def wal():
    b1=EventBus(name='w1', wal_path=d+'/w1.jsonl'); b2=EventBus(name='w2', wal_path=d+'/w2.jsonl')
    async def ha(e):
        c=b1.dispatch(B()); await c; return 1
    async def hb(e): return 2
    b1.on(A,ha); b1.on(B,hb); b1.on('*', b2.dispatch); b2.on('*', hb)
    a=await b1.dispatch(A(x=5))
    for _ in range(2): await b1.wait_until_idle(); await b2.wait_until_idle()
    for f in ('w1','w2'):
        lines=[json.loads(l) for l in open(f'{d}/{f}.jsonl')]
        print(f, [(l['event_type'], l['event_path'], l['event_parent_id'] and l['event_parent_id'][-4:]) for l in lines])
    rt=A.model_validate_json(open(d+'/w1.jsonl').readlines()[-1]); print('roundtrip', rt.event_id==a.event_id, rt.x, rt.event_path, rt.event_result_type)
    # fault: make the wal path a directory
    os.mkdir(d+'/bad'); b3=EventBus(name='w3', wal_path=d+'/bad'); b3.on(A,hb)
    e=await b3.dispatch(A()); print('fault: event', e.event_status, [(r.status) for r in e.event_results.values()])
    for b in (b1,b2,b3): await b.stop()
fresh(); asyncio.run(asyncio.wait_for(wal(), 20))
shutil.rmtree(d)

# retry semaphore
from vloop import run
T=lambda: round(asyncio.get_event_loop().time(),3)
log=[]
def mk(lax, st):
    @retry(retries=0, timeout=50, semaphore_limit=1, semaphore_name=f'k{lax}{st}', semaphore_timeout=st, semaphore_lax=lax)
    async def w(i, dur):
        log.append(('in',i,T()))
        try: await asyncio.sleep(dur); return i
        finally: log.append(('out',i,T()))
    return w
async def sem(lax):
    w=mk(lax, 3); log.clear()
    t1=asyncio.create_task(w(1,10)); t2=asyncio.create_task(w(2,1)); t3=asyncio.create_task(w(3,1))
    await asyncio.sleep(1); t3.cancel()
    r=await asyncio.gather(t1,t2,t3, return_exceptions=True)
    # capacity probe
    t4=asyncio.create_task(w(4,1)); t5=asyncio.create_task(w(5,1)); r2=await asyncio.gather(t4,t5, return_exceptions=True)
    print('sem lax=',lax, [type(x).__name__ if isinstance(x,BaseException) else x for x in r], log, r2, 'value', H.GLOBAL_RETRY_SEMAPHORES[f'k{lax}3']._value)
run(sem(True)); run(sem(False))
try: EventBus(name='nl').dispatch(A())
except BaseException as ex: print('no loop:', type(ex).__name__)
