import sys, asyncio, logging, warnings
warnings.simplefilter('ignore')
sys.path.insert(0, __import__('os').path.dirname(__import__('os').path.abspath(__file__)))
from vloop import run, DeadlockError
from bubus import EventBus, BaseEvent
logging.getLogger('bubus').setLevel(logging.CRITICAL)
class P(BaseEvent): pass
class C(BaseEvent): pass
class X(BaseEvent): pass
log=[]
T=lambda: asyncio.get_event_loop().time()
async def main(prestart):
    b1=EventBus(name='b1'); b2=EventBus(name='b2')
    if prestart: await b2.wait_until_idle()
    async def hp(e):
        log.append(('P-enter',T()))
        b2.dispatch(C())    # first use of b2 from inside handler
        await asyncio.sleep(5)
        log.append(('P-exit',T()))
    async def hc(e):
        log.append(('C-enter',T())); await asyncio.sleep(1); log.append(('C-exit',T()))
    b1.on(P,hp); b2.on(C,hc)
    p=b1.dispatch(P())
    await p
    await b1.wait_until_idle(); await b2.wait_until_idle()
    print(prestart, log)
    await b1.stop(); await b2.stop()
for pre in (True, False):
    log.clear()
    try: run(main(pre), horizon=50000)
    except DeadlockError as e: print(pre,'DEADLOCK',e, log)
