"""battery: stop mid-handler, small-N idle, nested timeouts, parallel+timeout, WAL order/faults"""
import sys, os, asyncio, logging, warnings, json, tempfile
warnings.simplefilter('ignore')
sys.path.insert(0, os.path.dirname(os.path.abspath(__file__)))
from vloop import run, DeadlockError
import bubus.service as S
from bubus import EventBus, BaseEvent
logging.getLogger('bubus').setLevel(logging.CRITICAL)
T=lambda: round(asyncio.get_event_loop().time(),3)
def fresh(): S.EventBus.all_instances.clear(); S._global_eventbus_lock=None
class A(BaseEvent): pass
class B(BaseEvent): pass
class Ct(BaseEvent):
    event_timeout: float|None = 2
class Pt(BaseEvent):
    event_timeout: float|None = 10

async def stop_mid():
    b=EventBus(name='s1'); log=[]
    async def h(e):
        log.append(('enter',e.event_type,T()))
        try: await asyncio.sleep(5)
        except BaseException as ex: log.append(('exc',type(ex).__name__,T())); raise
        log.append(('exit',T()))
    async def h2(e): log.append(('h2 enter',T()))
    b.on('*',h); b.on('*',h2)
    a=b.dispatch(A()); b2=b.dispatch(B())
    await asyncio.sleep(1)
    t0=T(); await b.stop(); t1=T()
    log.append(('stop returned',t0,t1))
    await asyncio.sleep(10)
    print('stop_mid', log, 'A', a.event_status, [ (r.status,type(r.error).__name__) for r in a.event_results.values()], 'B', b2.event_status)
fresh(); run(stop_mid())

async def small_n():
    b=EventBus(name='n1', max_history_size=1); ran=[]
    async def h(e): await asyncio.sleep(1); ran.append(e.event_type)
    b.on('*',h)
    evs=[b.dispatch(A()), b.dispatch(B()), b.dispatch(A())]
    await b.wait_until_idle()
    print('small_n idle at', T(), 'ran', ran, 'hist', len(b.event_history), 'q', b.event_queue.qsize())
    await asyncio.sleep(5); print('  later ran', ran)
    await b.stop()
fresh(); run(small_n())

async def nested_to():
    b=EventBus(name='t1'); log=[]
    async def hp(e):
        c=b.dispatch(Ct()); log.append(('p-await',T()))
        await c
        log.append(('p-after', T(), c.event_status, [(r.status,type(r.error).__name__) for r in c.event_results.values()]))
        return 'p'
    async def hc(e):
        log.append(('c-enter',T()))
        try: await asyncio.sleep(5)
        except BaseException as ex: log.append(('c-exc',type(ex).__name__,T())); raise
    async def hc2(e): log.append(('c2-enter',T())); return 'c2'
    b.on(Pt,hp); b.on(Ct,hc); b.on(Ct,hc2)
    p=await b.dispatch(Pt())
    await b.wait_until_idle()
    print('nested_to', log, 'P', [(r.status,type(r.error).__name__) for r in p.event_results.values()], T())
    await b.stop()
fresh(); run(nested_to())

async def par_to():
    b=EventBus(name='pp', parallel_handlers=True); log=[]
    async def h1(e):
        log.append(('h1',T())); await asyncio.sleep(20)
    async def h2(e):
        log.append(('h2',T())); c=b.dispatch(A()); await c; log.append(('h2 child done',T(), c.event_status)); return 2
    async def ha(e): log.append(('ha',T())); await asyncio.sleep(1)
    b.on(Pt,h1); b.on(Pt,h2); b.on(A,ha)
    p=await b.dispatch(Pt())
    await b.wait_until_idle()
    print('par_to', log, [(r.status,type(r.error).__name__) for r in p.event_results.values()], T())
    await b.stop()
fresh(); run(par_to())
