import sys, asyncio, logging
sys.path.insert(0, __import__('os').path.dirname(__import__('os').path.abspath(__file__)))
from vloop import run, DeadlockError
from bubus import EventBus, BaseEvent
logging.getLogger('bubus').setLevel(logging.CRITICAL)
class P(BaseEvent): pass
class C(BaseEvent): pass
class U(BaseEvent): pass
log=[]
async def main():
    bus=EventBus(name='b1')
    async def hp(e):
        log.append(('P-enter'))
        c=bus.dispatch(C())
        log.append('await-begin')
        await c
        log.append('await-end')
    async def hc(e): log.append('C-run')
    async def hu(e): log.append('U-run')
    bus.on(P,hp); bus.on(C,hc); bus.on(U,hu)
    p=bus.dispatch(P()); u=bus.dispatch(U())
    await p
    print(log)
    await bus.wait_until_idle()
    await bus.stop()
run(main())
