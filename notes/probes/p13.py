import sys, asyncio, logging, warnings
warnings.simplefilter('ignore')
sys.path.insert(0, __import__('os').path.dirname(__import__('os').path.abspath(__file__)))
from vloop import run, DeadlockError
import bubus.helpers as H
from bubus.helpers import retry
logging.getLogger('bubus.helpers').setLevel(logging.CRITICAL)
H.PSUTIL_AVAILABLE=False
T=lambda: asyncio.get_event_loop().time()
calls=[]
script=[]
@retry(wait=2, retries=3, timeout=5, backoff_factor=1.5, retry_on=(ValueError,TimeoutError))
async def f():
    k=len(calls); calls.append(('start',T()))
    kind,d=script[k]
    try:
        await asyncio.sleep(d)
        if kind=='ok': return 'ok'
        if kind=='L': raise ValueError(k)
        if kind=='U': raise KeyError(k)
    finally:
        calls.append(('end',T()))
async def go(s, cancel_at=None):
    calls.clear(); script[:]=s
    t=asyncio.create_task(f())
    if cancel_at is not None:
        await asyncio.sleep(cancel_at); t.cancel()
    try: r=await t
    except BaseException as ex: r=repr(ex)
    print(s, cancel_at, '->', r, calls, 'T=',T())
run(go([('L',1),('L',1),('ok',1)]))
run(go([('L',1),('hang',100),('U',1)]))
run(go([('L',1)]*4))
run(go([('L',1),('L',1),('ok',1)], cancel_at=1.5))
run(go([('hang',100),('ok',1)], cancel_at=5.0))
