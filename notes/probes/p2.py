import sys, asyncio, logging
sys.path.insert(0, __import__('os').path.dirname(__import__('os').path.abspath(__file__)))
from vloop import run, DeadlockError
from bubus import EventBus, BaseEvent
logging.getLogger('bubus').setLevel(logging.CRITICAL)
class R(BaseEvent):
    depth:int=0
log=[]
async def main(maxd, awaited):
    b1=EventBus(name='b1')
    async def h(e):
        log.append(('run',e.depth))
        if e.depth<maxd:
            c=b1.dispatch(R(depth=e.depth+1))
            if awaited: await c
    b1.on(R,h)
    p=b1.dispatch(R())
    await p
    print('returned', maxd, awaited, log, p.event_status)
    await b1.wait_until_idle()
    await b1.stop()
for maxd in (1,2,3,4):
  for aw in (False,True):
    log.clear()
    try: run(main(maxd,aw), horizon=2000)
    except DeadlockError as e: print(maxd,aw,'DEADLOCK',e, log)
