"""THROW-AWAY prototype of the spec->code direction: behaviours printed by TLC for ProtoHist.tla (one per
quiescent state of the exhaustive run) are turned into scenarios (per-event handler scripts + positions of the
external dispatches), executed on the real bubus, recorded, and written out for ProtoTrace validation.
Also reports how many real runs followed exactly the behaviour's sequence of logged actions.
Usage: replay_beh.py TLC_OUTPUT OUT.json"""
import sys, os, re, json, asyncio
sys.argv_saved = sys.argv; sys.argv = ['x', '0', '0', '/dev/null']
import importlib.util
spec = importlib.util.spec_from_file_location('gt', os.path.join(os.path.dirname(os.path.abspath(__file__)), 'gen_traces.py'))
src = open(spec.origin).read().replace('\nmain()\n', '\n')
gt = {'__file__': spec.origin, '__name__': 'gt'}; exec(compile(src, spec.origin, 'exec'), gt)
sys.argv = sys.argv_saved
C, S, VLoop, DeadlockError, EventBus, P, log, E = gt['C'], gt['S'], gt['VLoop'], gt['DeadlockError'], gt['EventBus'], gt['P'], gt['log'], gt['E']
SILENT = {'HResume', 'HSpinResume', 'HInlineDone', 'HInlineSpin'}

def behaviours(path):
    txt = open(path).read()
    for m in re.finditer(r'<<"BEH", "((?:[^"\\]|\\.)*)">>', txt):
        yield json.loads(json.loads('"' + m.group(1) + '"'))

def to_scenario(beh):
    act_event = {}; nact = 0; scripts = {}; kids = {}; ext = []; logged = 0; nev = 0
    for st in beh:
        a, g = st['a'], st['args']
        if a == 'ExtDispatch': nev += 1; ext.append((g[0], logged))
        elif a in ('RLBegin', 'RLGranted'):
            if a == 'RLBegin' and not g[2]: logged += 1; continue
            nact += 1; act_event[nact] = g[1]; scripts.setdefault(g[1], [])
        elif a == 'HInlineTake': nact += 1; act_event[nact] = g[2]; scripts.setdefault(g[2], [])
        elif a == 'HDispatch': nev += 1; scripts[act_event[g[0]]].append(['d', int(g[1][1:]) - 1])
        elif a == 'HYield': scripts[act_event[g[0]]].append(['y'])
        elif a == 'HAwait': scripts[act_event[g[0]]].append(['a', g[1] - 1])
        if a not in SILENT: logged += 1
    return scripts, ext

async def run_scn(scripts, ext):
    buses = [EventBus(name=f'b{i+1}', max_history_size=None) for i in range(2)]
    gt['reset'](buses); C.scripts = scripts
    for b in buses:
        b.on('*', gt['make_handler'](b, scripts)); b._start(); C.rl_task[b.name] = b._runloop_task; C.qbus[id(b.event_queue)] = b.name
    roots = []
    for (bn, target) in ext:
        for _ in range(60):
            if len(C.lines) >= target: break
            await asyncio.sleep(0)
        b = next(x for x in buses if x.name == bn); e = b.dispatch(P()); roots.append(e); log('ExtDispatch', b=bn, e=E(e))
    for e in roots: await e
    for _ in range(2):
        for b in buses: await b.wait_until_idle()
    log('End')
    for b in buses: await b.stop(clear=True)
    return {'roots': len(ext), 'nb': 2, 'scripts': {str(k): v for k, v in scripts.items()}, 'lines': C.lines}

def main():
    gt['install'](); traces = []; same = 0; n = 0; hung = 0
    for beh in behaviours(sys.argv[1]):
        n += 1
        scripts, ext = to_scenario(beh)
        # RLBegin with acquired=False is logged as 'RLBegin' in both; behaviours log RLBegin for the blocked case too
        want = [s['a'] for s in beh if s['a'] not in SILENT]
        S.EventBus.all_instances.clear(); S._global_eventbus_lock = None
        loop = VLoop(); loop.horizon = 60; asyncio.set_event_loop(loop)
        try:
            tr = loop.run_until_complete(run_scn(scripts, ext)); traces.append(tr)
            got = [l['a'] for l in tr['lines'] if l['a'] not in ('End', 'HAwaitEnd')]
            same += (got == want)
        except DeadlockError: hung += 1
        finally:
            try: loop.close()
            except BaseException: pass
    json.dump(traces, open(sys.argv[2], 'w'))
    print('behaviours', n, 'executed', len(traces), 'hung', hung, 'followed the behaviour action-for-action', same)
main()
