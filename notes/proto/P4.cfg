SPECIFICATION Spec
CONSTANTS
  Buses = {b1, b2, b3}
  MaxEv = 4
  MaxAct = 4
  Budget = 3
  Roots = 1
INVARIANT MutexOK
INVARIANT AllCompleteAtQuiescence
CHECK_DEADLOCK FALSE
