SPECIFICATION Spec
CONSTANTS
  Buses = {b1, b2}
  MaxEv = 3
  MaxAct = 3
  Budget = 3
  Roots = 1
INVARIANT MutexOK
INVARIANT AllCompleteAtQuiescence
INVARIANT Dump
VIEW view
CHECK_DEADLOCK FALSE
