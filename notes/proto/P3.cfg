SPECIFICATION Spec
CONSTANTS
  Buses = {b1, b2}
  MaxEv = 4
  MaxAct = 4
  Budget = 3
  Roots = 2
INVARIANT MutexOK
INVARIANT AllCompleteAtQuiescence
CHECK_DEADLOCK FALSE
