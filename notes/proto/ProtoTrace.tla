---------------------------- MODULE ProtoTrace ----------------------------
(* THROW-AWAY prototype of the code->spec binding: replays traces recorded from the real bubus
   (gen_traces.py) through Proto's own actions, comparing the logged state after every line.
   Verdict per trace is total: ACCEPT or REJECT with the line that no action explains. *)
EXTENDS Proto, Json, IOUtils, TLCExt
Traces == JsonDeserialize(IOEnv.TRACE_FILE)
VARIABLES tid, l, sil
tvars == <<tid, l, sil>>
MaxSilent == 8
ASSUME TLCSet(1, {}) /\ TLCSet(2, [t \in 1..Len(JsonDeserialize(IOEnv.TRACE_FILE)) |-> 0])
Tr == Traces[tid]
Line == Tr.lines[l]

TInit ==
  /\ tid \in 1..Len(Traces) /\ l = 1 /\ sil = 0
  /\ nev = 0 /\ ev = [i \in 1..MaxEv |-> Ev0]
  /\ q = [b \in Buses |-> <<>>] /\ unf = [b \in Buses |-> 0]
  /\ semv = 1 /\ depth = 0 /\ lockq = <<>>
  /\ rl = [b \in Buses |-> [pc |-> "poll", e |-> 0, holds |-> FALSE]]
  /\ nact = 0 /\ act = [i \in 1..MaxAct |-> Act0]
  /\ cur = NoTask /\ roots = Traces[tid].roots /\ bad = {}

StateOK ==
  LET s == Line.s IN
  /\ \A b \in Buses : q'[b] = s.q[b] /\ unf'[b] = s.unf[b]
  /\ semv' = s.semv /\ depth' = s.depth
  /\ nev' = Len(s.sig)
  /\ \A e \in 1..Len(s.sig) : ev'[e].sig = s.sig[e]

Is(a) == l <= Len(Tr.lines) /\ Line.a = a
Logged ==
  \/ Is("ExtDispatch") /\ ExtDispatch(Line.b) /\ nev + 1 = Line.e
  \/ Is("RLTake") /\ RLTake(Line.b) /\ Head(q[Line.b]) = Line.e
  \/ Is("RLBegin") /\ RLBegin(Line.b) /\ (Line.acquired <=> (semv > 0 /\ lockq = <<>>))
  \/ Is("RLGranted") /\ RLGranted(Line.b)
  \/ Is("RLFinish") /\ RLFinish(Line.b)
  \/ Is("HDispatch") /\ HRunOp(Line.i) /\ HDispatch(Line.i, Line.b) /\ nev + 1 = Line.e
  \/ Is("HYield") /\ HRunOp(Line.i) /\ HYield(Line.i)
  \/ Is("HAwait") /\ HRunOp(Line.i) /\ HAwait(Line.i, Line.k)
  \/ Is("HReturn") /\ HReturn(Line.i)
  \/ Is("HInlineTake") /\ HInlineTake(Line.i, Line.b) /\ Head(q[Line.b]) = Line.e
  \/ Is("HNestedFinish") /\ HNestedFinish(Line.i)
  \/ Is("HAwaitEnd") /\ cur = Line.i /\ act[Line.i].pc \in {"ready", "run"}
                     /\ (Line.ok = FALSE => act[Line.i].gaveup) /\ UNCHANGED vars
  \/ Is("End") /\ Quiescent /\ UNCHANGED vars

Silent ==
  \E i \in 1..nact : HResume(i) \/ HSpinResume(i) \/ HInlineDone(i) \/ HInlineSpin(i)

TNext ==
  \/ Logged /\ StateOK /\ l' = l + 1 /\ sil' = 0 /\ tid' = tid
  \/ l <= Len(Tr.lines) /\ sil < MaxSilent /\ Silent /\ sil' = sil + 1 /\ UNCHANGED <<tid, l>>

TSpec == TInit /\ [][TNext]_<<vars, tvars>>

\* bookkeeping of verdicts: register 1 = set of accepted trace ids, register 2 = furthest line per trace
Accept == l = Len(Tr.lines) + 1 => TLCSet(1, TLCGet(1) \cup {tid})
Furthest == TLCSet(2, [TLCGet(2) EXCEPT ![tid] = IF l > @ THEN l ELSE @])
Book == Accept /\ Furthest
Post ==
  /\ PrintT(<<"ACCEPTED", Cardinality(TLCGet(1)), "of", Len(Traces)>>)
  /\ \A t \in 1..Len(Traces) : t \in TLCGet(1) \/ PrintT(<<"REJECT", t, "line", TLCGet(2)[t], Traces[t].lines[TLCGet(2)[t]]>>)
=============================================================================
