SPECIFICATION TSpec
CONSTANTS
  Buses = {"b1", "b2"}
  MaxEv = 6
  MaxAct = 6
  Budget = 4
  Roots = 2
INVARIANT Book
POSTCONDITION Post
CHECK_DEADLOCK FALSE
