"""THROW-AWAY design-phase prototype: record traces of the real bubus for the slice modelled by Proto.tla
(one async wildcard puppet handler per bus, ops dispatch/yield/await/return) so that ProtoTrace.tla can
replay them with TLC.  Usage: gen_traces.py N SEED OUT.json"""
import sys, os, asyncio, logging, warnings, functools, random, json
warnings.simplefilter('ignore')
sys.path.insert(0, os.path.join(os.path.dirname(os.path.abspath(__file__)), '..', 'probes'))
from vloop import VLoop, DeadlockError
import bubus.service as S, bubus.models as M
from bubus import EventBus, BaseEvent
logging.getLogger('bubus').setLevel(logging.CRITICAL)

class Ctx:
    pass
C = Ctx()

def reset(buses):
    C.buses = buses; C.lines = []; C.eid = {}; C.ev = []; C.task_act = {}; C.act_of_handler_task = {}
    C.nact = 0; C.rl_task = {}; C.qbus = {}; C.act_index = {}
def E(e):
    if e.event_id not in C.eid:
        C.eid[e.event_id] = len(C.eid) + 1; C.ev.append(e)
    return C.eid[e.event_id]
def state():
    lock = S._global_eventbus_lock
    return {
        'q': {b.name: [E(e) for e in b.event_queue._queue] for b in C.buses},
        'unf': {b.name: b.event_queue._unfinished_tasks for b in C.buses},
        'sig': [bool(e._event_completed_signal and e._event_completed_signal.is_set()) for e in C.ev],
        'semv': (lock._semaphore._value if lock and lock._semaphore else 1),
        'depth': (lock._depth if lock else 0),
    }
def log(a, **kw):
    C.lines.append({'a': a, **kw, 's': state()})
def who():
    t = asyncio.current_task()
    if t in C.act_of_handler_task: return ('act', C.act_of_handler_task[t])
    for b, rt in C.rl_task.items():
        if rt is t: return ('rl', b)
    return ('other', None)

def install():
    o_get = S.CleanShutdownQueue.get_nowait
    def get_nowait(self):
        r = o_get(self)
        k, x = who(); b = C.qbus[id(self)]
        if k == 'act': log('HInlineTake', i=x, b=b, e=E(r))
        else: log('RLTake', b=b, e=E(r))
        return r
    S.CleanShutdownQueue.get_nowait = get_nowait
    o_td = S.CleanShutdownQueue.task_done
    def task_done(self):
        r = o_td(self); k, x = who()
        if k == 'act': log('HNestedFinish', i=x)
        return r
    S.CleanShutdownQueue.task_done = task_done
    o_enter = S.ReentrantLock.__aenter__
    async def aenter(self):
        k, x = who()
        immediate = S.holds_global_lock.get() or not self._get_semaphore().locked()
        if k == 'rl' and not immediate: log('RLBegin', b=x, acquired=False)
        r = await o_enter(self)
        C.pending_begin = (x, immediate)
        return r
    S.ReentrantLock.__aenter__ = aenter
    o_exec = S.EventBus.execute_handler
    async def execute_handler(self, event, handler, timeout=None):
        k, x = who()
        C.nact += 1; my = C.nact
        C.act_index[(self.name, E(event))] = my
        if k == 'rl':
            b, immediate = C.pending_begin
            # result 'started' + task creation happen in orig before first suspension; log after that stretch is
            # impossible from here, so log now (effects on the logged state components are nil)
            log('RLBegin' if immediate else 'RLGranted', b=x, **({'acquired': True} if immediate else {}))
        return await o_exec(self, event, handler, timeout)
    S.EventBus.execute_handler = execute_handler
    o_exit = S.ReentrantLock.__aexit__
    async def aexit(self, *a):
        k, x = who()
        r = await o_exit(self, *a)
        if k == 'rl': log('RLFinish', b=x)
        return r
    S.ReentrantLock.__aexit__ = aexit

class P(BaseEvent): pass

def make_handler(bus, scripts):
    async def h(e):
        t = asyncio.current_task(); i = C.act_index[(bus.name, E(e))]; C.act_of_handler_task[t] = i
        kids = []
        for op in scripts.get(E(e), []):
            if op[0] == 'd':
                tgt = C.buses[op[1]]
                c = tgt.dispatch(P()); kids.append(c); log('HDispatch', i=i, b=tgt.name, e=E(c))
            elif op[0] == 'y':
                log('HYield', i=i); await asyncio.sleep(0)
            elif op[0] == 'a':
                if op[1] < len(kids):
                    c = kids[op[1]]
                    log('HAwait', i=i, k=op[1] + 1)
                    await c
                    log('HAwaitEnd', i=i, ok=bool(c.event_completed_signal.is_set()))
        log('HReturn', i=i)
    h.__name__ = f'h_{bus.name}'
    return h

async def scenario(rng, nb):
    buses = [EventBus(name=f'b{i+1}', max_history_size=None) for i in range(nb)]
    reset(buses)
    scripts = {}; C.scripts = scripts
    for eid in range(1, 7):
        ops = []
        for _ in range(rng.randint(0, 3)):
            r = rng.random()
            if r < 0.45: ops.append(('d', rng.randrange(nb)))
            elif r < 0.65: ops.append(('y',))
            else: ops.append(('a', rng.randrange(2)))
        scripts[eid] = ops
    for b in buses:
        b.on('*', make_handler(b, scripts))
        b._start(); C.rl_task[b.name] = b._runloop_task; C.qbus[id(b.event_queue)] = b.name
    nroots = rng.randint(1, 2)
    roots = []
    for _ in range(nroots):
        for _ in range(rng.randint(0, 4)): await asyncio.sleep(0)
        b = rng.choice(buses); e = b.dispatch(P()); roots.append(e); log('ExtDispatch', b=b.name, e=E(e))
    for e in roots: await e
    for _ in range(2):
        for b in buses: await b.wait_until_idle()
    log('End')
    for b in buses: await b.stop(clear=True)
    return {'roots': nroots, 'nb': nb, 'scripts': {str(k): v for k, v in scripts.items()}, 'lines': C.lines}

def main():
    n, seed, out = int(sys.argv[1]), int(sys.argv[2]), sys.argv[3]
    install(); rng = random.Random(seed); traces = []; dead = 0; deadinfo = []
    for _ in range(n):
        S.EventBus.all_instances.clear(); S._global_eventbus_lock = None
        loop = VLoop(); loop.horizon = 60; asyncio.set_event_loop(loop)
        try:
            tr = loop.run_until_complete(scenario(rng, 2))
            if len(C.eid) <= 6 and C.nact <= 6: traces.append(tr)
        except DeadlockError as ex:
            dead += 1; deadinfo.append((str(ex), C.lines[-8:] if C.lines else None, getattr(C,'scripts',None)))
        finally:
            try: loop.close()
            except BaseException: pass
    json.dump(traces, open(out, 'w'))
    for d in deadinfo[:4]: print('DEAD', d[0], d[2], [ {k:v for k,v in l.items() if k!='s'} for l in (d[1] or [])])
    print('traces', len(traces), 'deadlocked', dead, 'lines', sum(len(t['lines']) for t in traces))
main()
