------------------------------ MODULE ProtoHist ------------------------------
(* THROW-AWAY design-phase prototype (not the deliverable): sizes the state space of the
   "real suspension points + atomic stretches" modelling style for bubus's core:
   queues, global re-entrant lock, run loops, async handlers with most-general ops,
   inline processing by an awaiting handler (head draining, as the code does),
   completion propagation.  One wildcard async handler per bus, serial mode. *)
EXTENDS Naturals, Sequences, FiniteSets, TLC, Json

CONSTANTS Buses, MaxEv, MaxAct, Budget, Roots
NoTask == 0
VARIABLES
  nev,      \* number of events created
  ev,       \* [1..MaxEv -> [par, sig, res]]   res: [Buses -> {"none","pending","started","completed"}] , kids: [Buses -> Seq(id)]
  q,        \* [Buses -> Seq(id)]
  unf,      \* [Buses -> Nat]
  semv, depth, lockq,
  rl,       \* [Buses -> [pc, e, holds]]
  nact, act,\* activations 1..MaxAct: [bus,e,pc,bud,kids,aw,owner,frame]
  cur,      \* running handler task (atomic stretch) or NoTask
  roots,    \* external dispatches still to do
  bad       \* monitor flags
vars == <<nev,ev,q,unf,semv,depth,lockq,rl,nact,act,cur,roots,bad>>
VARIABLE hist
view == vars

Ev0 == [par |-> 0, sig |-> FALSE, res |-> [b \in Buses |-> "none"], kids |-> [b \in Buses |-> <<>>]]
Act0 == [bus |-> CHOOSE b \in Buses: TRUE, e |-> 0, pc |-> "free", bud |-> 0, kids |-> <<>>, aw |-> 0,
         owner |-> <<"none", 0>>, fe |-> 0, fb |-> CHOOSE b \in Buses: TRUE, gaveup |-> FALSE]

Init ==
  /\ nev = 0 /\ ev = [i \in 1..MaxEv |-> Ev0]
  /\ q = [b \in Buses |-> <<>>] /\ unf = [b \in Buses |-> 0]
  /\ semv = 1 /\ depth = 0 /\ lockq = <<>>
  /\ rl = [b \in Buses |-> [pc |-> "poll", e |-> 0, holds |-> FALSE]]
  /\ nact = 0 /\ act = [i \in 1..MaxAct |-> Act0]
  /\ cur = NoTask /\ roots = Roots /\ bad = {}

Terminal(s) == s \in {"completed", "error"}
ResDone(e) == \A b \in Buses : ev[e].res[b] = "none" \/ Terminal(ev[e].res[b])
AllKids(e) == UNION { {ev[e].kids[b][i] : i \in 1..Len(ev[e].kids[b])} : b \in Buses }
\* event_status-based child check (as in the code): status completed = all results terminal (and at least processed)
HasRes(e) == \E b \in Buses : ev[e].res[b] # "none"
RECURSIVE KidsComplete(_, _)
KidsComplete(E, e) == \A k \in AllKids(e) : /\ (HasRes(k) /\ \A b \in Buses: E[k].res[b] = "none" \/ Terminal(E[k].res[b])) \/ (~HasRes(k) /\ E[k].sig)
                                            /\ KidsComplete(E, k)
\* mark complete if possible, on the given ev-function, returns new ev-function
Mark(E, e) == IF ~E[e].sig /\ (\A b \in Buses : E[e].res[b] = "none" \/ Terminal(E[e].res[b])) /\ KidsComplete(E, e)
              THEN [E EXCEPT ![e].sig = TRUE] ELSE E
RECURSIVE MarkUp(_, _)
MarkUp(E, e) == LET E1 == Mark(E, e) IN IF E1[e].par = 0 THEN E1 ELSE MarkUp(E1, E1[e].par)

\* ---- dispatch (no capacity/history in the prototype) ----
Dispatch(b, parent, hb) ==   \* parent: event id or 0; hb: bus of handler result to attach child to
  /\ nev < MaxEv
  /\ nev' = nev + 1
  /\ ev' = [ev EXCEPT ![nev+1].par = parent,
                      ![parent].kids[hb] = IF parent = 0 THEN @ ELSE Append(@, nev+1)]
  /\ q' = [q EXCEPT ![b] = Append(@, nev+1)]
  /\ unf' = [unf EXCEPT ![b] = @ + 1]

ExtDispatch(b) ==
  /\ cur = NoTask /\ roots > 0 /\ nev < MaxEv
  /\ nev' = nev + 1 /\ ev' = ev
  /\ q' = [q EXCEPT ![b] = Append(@, nev+1)] /\ unf' = [unf EXCEPT ![b] = @ + 1]
  /\ roots' = roots - 1
  /\ UNCHANGED <<semv,depth,lockq,rl,nact,act,cur,bad>>

\* ---- start processing event e on bus b by owner o (<<"rl",b>> or <<"act",i>>): pending+started result, spawn handler task
Spawn(b, e, o) ==
  /\ nact < MaxAct
  /\ nact' = nact + 1
  /\ act' = [act EXCEPT ![nact+1] = [Act0 EXCEPT !.bus = b, !.e = e, !.pc = "ready", !.bud = Budget, !.owner = o]]

\* ---- run loop ----
RLTake(b) ==
  /\ cur = NoTask /\ rl[b].pc = "poll" /\ q[b] # <<>>
  /\ rl' = [rl EXCEPT ![b].pc = "got", ![b].e = Head(q[b])]
  /\ q' = [q EXCEPT ![b] = Tail(@)]
  /\ UNCHANGED <<nev,ev,unf,semv,depth,lockq,nact,act,cur,roots,bad>>

StartProc(b, e, o, E) ==  \* common: applicable handler = the bus's wildcard handler unless already has result
  IF E[e].res[b] = "none"
  THEN /\ ev' = [E EXCEPT ![e].res[b] = "started"]
       /\ Spawn(b, e, o)
  ELSE FALSE  \* prototype: no re-dispatch, so never happens

RLBegin(b) ==
  /\ cur = NoTask /\ rl[b].pc = "got"
  /\ IF semv > 0 /\ lockq = <<>>
     THEN /\ semv' = semv - 1 /\ depth' = 1 /\ lockq' = lockq
          /\ rl' = [rl EXCEPT ![b].pc = "waith", ![b].holds = TRUE]
          /\ StartProc(b, rl[b].e, <<"rl", b>>, ev)
          /\ UNCHANGED <<nev,q,unf,cur,roots,bad>>
     ELSE /\ lockq' = Append(lockq, b)
          /\ rl' = [rl EXCEPT ![b].pc = "waitlock"]
          /\ UNCHANGED <<nev,ev,q,unf,semv,depth,nact,act,cur,roots,bad>>

RLGranted(b) ==
  /\ cur = NoTask /\ rl[b].pc = "granted"
  /\ depth' = 1
  /\ rl' = [rl EXCEPT ![b].pc = "waith", ![b].holds = TRUE]
  /\ StartProc(b, rl[b].e, <<"rl", b>>, ev)
  /\ UNCHANGED <<nev,q,unf,semv,lockq,cur,roots,bad>>

\* handler task finished -> owner resumes: result completed, (monitor hop folded), mark complete, walk parents, task_done, release
RLFinish(b) ==
  /\ cur = NoTask /\ rl[b].pc = "hdone"
  /\ LET e == rl[b].e
         E1 == [ev EXCEPT ![e].res[b] = "completed"]
     IN ev' = MarkUp(E1, e)
  /\ unf' = [unf EXCEPT ![b] = @ - 1]
  /\ depth' = depth - 1
  /\ IF depth - 1 = 0
     THEN IF lockq # <<>>
          THEN /\ semv' = semv /\ lockq' = Tail(lockq)
               /\ rl' = [rl EXCEPT ![b].pc = "poll", ![b].holds = FALSE, ![b].e = 0, ![Head(lockq)].pc = "granted"]
          ELSE /\ semv' = semv + 1 /\ lockq' = lockq
               /\ rl' = [rl EXCEPT ![b].pc = "poll", ![b].holds = FALSE, ![b].e = 0]
     ELSE /\ semv' = semv /\ lockq' = lockq /\ rl' = [rl EXCEPT ![b].pc = "poll", ![b].e = 0]
  /\ UNCHANGED <<nev,q,nact,act,cur,roots,bad>>

\* ---- handler task: scheduling of a stretch ----
HResume(i) ==
  /\ cur = NoTask /\ act[i].pc = "ready"
  /\ cur' = i
  /\ UNCHANGED <<nev,ev,q,unf,semv,depth,lockq,rl,nact,act,roots,bad>>

HDispatch(i, b) ==
  /\ cur = i /\ act[i].bud > 0
  /\ Dispatch(b, act[i].e, act[i].bus)
  /\ act' = [act EXCEPT ![i].bud = @ - 1, ![i].kids = Append(@, nev+1)]
  /\ UNCHANGED <<semv,depth,lockq,rl,nact,cur,roots,bad>>

HYield(i) ==
  /\ cur = i /\ act[i].bud > 0
  /\ act' = [act EXCEPT ![i].bud = @ - 1]
  /\ cur' = NoTask
  /\ UNCHANGED <<nev,ev,q,unf,semv,depth,lockq,rl,nact,roots,bad>>

HAwait(i, k) ==
  /\ cur = i /\ act[i].bud > 0 /\ k \in 1..Len(act[i].kids)
  /\ LET c == act[i].kids[k] IN
     IF ev[c].sig
     THEN /\ act' = [act EXCEPT ![i].bud = @ - 1] /\ cur' = cur
     ELSE /\ act' = [act EXCEPT ![i].bud = @ - 1, ![i].aw = c, ![i].pc = "inline"] /\ cur' = cur  \* continue into inline loop in same stretch
  /\ UNCHANGED <<nev,ev,q,unf,semv,depth,lockq,rl,nact,roots,bad>>

\* inline loop: take the head of some non-empty queue (as the code does) and process it in this task
HInlineTake(i, b) ==
  /\ cur = i /\ act[i].pc = "inline" /\ ~ev[act[i].aw].sig /\ q[b] # <<>>
  /\ LET e == Head(q[b]) IN
       /\ q' = [q EXCEPT ![b] = Tail(@)]
       /\ nact < MaxAct /\ ev[e].res[b] = "none"
       /\ ev' = [ev EXCEPT ![e].res[b] = "started"]
       /\ nact' = nact + 1
       /\ act' = [act EXCEPT ![i].pc = "waith", ![i].fe = e, ![i].fb = b,
                             ![nact+1] = [Act0 EXCEPT !.bus = b, !.e = e, !.pc = "ready", !.bud = Budget, !.owner = <<"act", i>>]]
       /\ bad' = IF e # act[i].aw /\ ~(\E j \in 1..nact : FALSE) THEN bad \cup {"C05_unrelated_before_child"} ELSE bad
  /\ cur' = NoTask
  /\ UNCHANGED <<nev,unf,semv,depth,lockq,rl,roots>>

HInlineDone(i) ==   \* awaited event complete: leave the loop, keep running
  /\ cur = i /\ act[i].pc = "inline" /\ ev[act[i].aw].sig
  /\ act' = [act EXCEPT ![i].pc = "ready", ![i].aw = 0]
  /\ UNCHANGED <<nev,ev,q,unf,semv,depth,lockq,rl,nact,cur,roots,bad>>

OthersRunnable(i) ==
  \/ \E b \in Buses : rl[b].pc \in {"got", "granted", "hdone"} \/ (rl[b].pc = "poll" /\ q[b] # <<>>)
  \/ \E j \in 1..nact : j # i /\ act[j].pc \in {"ready", "nested_done", "spin"}
  \/ roots > 0

HInlineSpin(i) ==   \* nothing queued anywhere: sleep(0)
  /\ cur = i /\ act[i].pc = "inline" /\ ~ev[act[i].aw].sig /\ \A b \in Buses : q[b] = <<>>
  /\ IF OthersRunnable(i)
     THEN act' = [act EXCEPT ![i].pc = "spin"] /\ bad' = bad
     ELSE act' = [act EXCEPT ![i].pc = "ready", ![i].aw = 0, ![i].gaveup = TRUE] /\ bad' = bad \cup {"C04_gaveup"}
  /\ cur' = NoTask
  /\ UNCHANGED <<nev,ev,q,unf,semv,depth,lockq,rl,nact,roots>>

HSpinResume(i) ==
  /\ cur = NoTask /\ act[i].pc = "spin"
  /\ act' = [act EXCEPT ![i].pc = "inline"] /\ cur' = i
  /\ UNCHANGED <<nev,ev,q,unf,semv,depth,lockq,rl,nact,roots,bad>>

\* nested handler finished: finish nested process_event in this task, then continue the inline loop
HNestedFinish(i) ==
  /\ cur = NoTask /\ act[i].pc = "nested_done"
  /\ LET e == act[i].fe  b == act[i].fb
         E1 == [ev EXCEPT ![e].res[b] = "completed"]
     IN ev' = MarkUp(E1, e)
  /\ unf' = [unf EXCEPT ![act[i].fb] = @ - 1]
  /\ act' = [act EXCEPT ![i].pc = "inline", ![i].fe = 0]
  /\ cur' = i
  /\ UNCHANGED <<nev,q,semv,depth,lockq,rl,nact,roots,bad>>

HReturn(i) ==
  /\ cur = i /\ act[i].pc \in {"ready", "run"}
  /\ cur' = NoTask
  /\ LET o == act[i].owner IN
     IF o[1] = "rl"
     THEN /\ rl' = [rl EXCEPT ![o[2]].pc = "hdone"] /\ act' = [act EXCEPT ![i].pc = "done"]
     ELSE /\ rl' = rl /\ act' = [act EXCEPT ![i].pc = "done", ![o[2]].pc = "nested_done"]
  /\ UNCHANGED <<nev,ev,q,unf,semv,depth,lockq,nact,roots,bad>>

HRunOp(i) == \* after HResume the task is in pc "ready" with cur=i; ops allowed in "ready"/"run"
  act[i].pc \in {"ready", "run"}

Next ==
  \/ \E b \in Buses : ExtDispatch(b) \/ RLTake(b) \/ RLBegin(b) \/ RLGranted(b) \/ RLFinish(b)
  \/ \E i \in 1..nact :
        \/ HResume(i) \/ HSpinResume(i) \/ HNestedFinish(i)
        \/ (HRunOp(i) /\ (HYield(i) \/ HReturn(i) \/ (\E b \in Buses : HDispatch(i, b)) \/ (\E k \in 1..MaxEv : HAwait(i, k))))
        \/ HInlineDone(i) \/ HInlineSpin(i) \/ (\E b \in Buses : HInlineTake(i, b))

Lbl(a, args) == hist' = Append(hist, [a |-> a, args |-> args])
NextH ==
  \/ \E b \in Buses : \/ (ExtDispatch(b) /\ Lbl("ExtDispatch", <<b>>))
                       \/ (RLTake(b) /\ Lbl("RLTake", <<b, Head(q[b])>>))
                       \/ (RLBegin(b) /\ Lbl("RLBegin", <<b, rl[b].e, semv > 0 /\ lockq = <<>> >>))
                       \/ (RLGranted(b) /\ Lbl("RLGranted", <<b, rl[b].e>>))
                       \/ (RLFinish(b) /\ Lbl("RLFinish", <<b>>))
  \/ \E i \in 1..nact :
        \/ (HResume(i) /\ Lbl("HResume", <<i>>))
        \/ (HSpinResume(i) /\ Lbl("HSpinResume", <<i>>))
        \/ (HNestedFinish(i) /\ Lbl("HNestedFinish", <<i>>))
        \/ (HRunOp(i) /\ HYield(i) /\ Lbl("HYield", <<i>>))
        \/ (HRunOp(i) /\ HReturn(i) /\ Lbl("HReturn", <<i>>))
        \/ \E b \in Buses : (HRunOp(i) /\ HDispatch(i, b) /\ Lbl("HDispatch", <<i, b>>))
        \/ \E k \in 1..MaxEv : (HRunOp(i) /\ HAwait(i, k) /\ Lbl("HAwait", <<i, k>>))
        \/ (HInlineDone(i) /\ Lbl("HInlineDone", <<i>>))
        \/ (HInlineSpin(i) /\ Lbl("HInlineSpin", <<i>>))
        \/ \E b \in Buses : (HInlineTake(i, b) /\ Lbl("HInlineTake", <<i, b, Head(q[b])>>))
Spec == Init /\ hist = <<>> /\ [][NextH]_<<vars, hist>>

\* ---------------- properties (prototype) ----------------
MutexOK == semv \in 0..1 /\ Cardinality({b \in Buses : rl[b].holds}) <= 1
NoGiveUp == "C04_gaveup" \notin bad
Quiescent == cur = NoTask /\ roots = 0 /\ (\A b \in Buses : q[b] = <<>> /\ rl[b].pc = "poll") /\ \A i \in 1..nact : act[i].pc = "done"
Dump == Quiescent => PrintT(<<"BEH", ToJson(hist)>>)
AllCompleteAtQuiescence == Quiescent => \A e \in 1..nev : ev[e].sig /\ \A b \in Buses : unf[b] = 0
=============================================================================
